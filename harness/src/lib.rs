//! Verification harness for cod-technologies/sqldatetime (property-based testing + fuzzing).
pub mod adapter;
pub mod engine;
pub mod fuzz_entry;
pub mod gen;
pub mod model {
    pub mod cal;
    pub mod dyadic;
    pub mod text;
}
pub mod ops;
pub mod pools;
pub mod props;
pub mod speller;
pub mod strat;
