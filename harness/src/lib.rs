//! Verification harness for cod-technologies/sqldatetime (property-based testing + fuzzing).
pub mod adapter;
pub mod engine;
pub mod model {
    pub mod cal;
    pub mod text;
}
pub mod props;
