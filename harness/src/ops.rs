//! The operation table: every safe public function of the six types that takes values and
//! scalars and returns a value, a scalar or an error. Shared by C02 (results in range),
//! C03 (no panic), C08 (exact linear arithmetic) and C16 (whole seconds).

use crate::adapter as ad;
use crate::model::cal::*;
use crate::model::text::{Kind, Val};
use sqldatetime::{Date, Error, IntervalDT, IntervalYM, OracleDate, Round, Time, Timestamp, Trunc};
use std::convert::TryFrom;

#[derive(Clone, Copy, Debug, PartialEq)]
pub enum Arg {
    V(Val),
    I32(i32),
    I64(i64),
    U32(u32),
    F64(f64),
}

#[derive(Clone, Copy, Debug, PartialEq, Eq)]
pub enum ArgKind {
    K(Kind),
    I32,
    I64,
    U32,
    F64,
}

#[derive(Clone, Copy, Debug, PartialEq)]
pub enum Out {
    Val(Val),
    Pair(Val, Val),
    I32(i32),
    F64(f64),
    Bool(bool),
}

/// Exact expectation of an operation, when a one-line integer model exists.
#[derive(Clone, Copy, Debug, PartialEq)]
pub enum Model {
    /// The exact result as a raw count of `kind`; the call must return it iff it is in range.
    Exact(Kind, i128),
    /// A bare (infallible) integer result.
    Int(i128),
    None,
}

pub struct Op {
    pub name: &'static str,
    pub args: &'static [ArgKind],
    pub call: fn(&[Arg]) -> Result<Out, Error>,
    pub model: fn(&[Arg]) -> Model,
}

fn raw(a: &Arg) -> i128 {
    match a {
        Arg::V(v) => v.raw,
        Arg::I32(x) => *x as i128,
        Arg::I64(x) => *x as i128,
        Arg::U32(x) => *x as i128,
        Arg::F64(_) => panic!("raw of f64"),
    }
}
fn d(a: &Arg) -> Date {
    ad::date(raw(a) as i32)
}
fn t(a: &Arg) -> Time {
    ad::time(raw(a) as i64)
}
fn ts(a: &Arg) -> Timestamp {
    ad::ts(raw(a) as i64)
}
fn ora(a: &Arg) -> OracleDate {
    ad::ora(raw(a) as i64)
}
fn ym(a: &Arg) -> IntervalYM {
    ad::ym(raw(a) as i32)
}
fn dt(a: &Arg) -> IntervalDT {
    ad::dt(raw(a) as i64)
}
fn i32a(a: &Arg) -> i32 {
    raw(a) as i32
}
fn i64a(a: &Arg) -> i64 {
    raw(a) as i64
}
fn u32a(a: &Arg) -> u32 {
    raw(a) as u32
}
fn f64a(a: &Arg) -> f64 {
    match a {
        Arg::F64(x) => *x,
        _ => panic!("not f64"),
    }
}

fn vd(x: Date) -> Out {
    Out::Val(Val::new(Kind::Date, x.days() as i128))
}
fn vt(x: Time) -> Out {
    Out::Val(Val::new(Kind::Time, x.usecs() as i128))
}
fn vts(x: Timestamp) -> Out {
    Out::Val(Val::new(Kind::Ts, x.usecs() as i128))
}
fn vora(x: OracleDate) -> Out {
    Out::Val(Val::new(Kind::Ora, x.usecs() as i128))
}
fn vym(x: IntervalYM) -> Out {
    Out::Val(Val::new(Kind::YM, x.months() as i128))
}
fn vdt(x: IntervalDT) -> Out {
    Out::Val(Val::new(Kind::DT, x.usecs() as i128))
}

fn no_model(_: &[Arg]) -> Model {
    Model::None
}

use ArgKind::*;
const KD: ArgKind = K(Kind::Date);
const KT: ArgKind = K(Kind::Time);
const KTS: ArgKind = K(Kind::Ts);
const KO: ArgKind = K(Kind::Ora);
const KYM: ArgKind = K(Kind::YM);
const KDT: ArgKind = K(Kind::DT);

macro_rules! op {
    ($name:expr, [$($ak:expr),*], |$a:ident| $call:expr) => {
        Op { name: $name, args: &[$($ak),*], call: |$a: &[Arg]| -> Result<Out, Error> { $call }, model: no_model }
    };
    ($name:expr, [$($ak:expr),*], |$a:ident| $call:expr, |$m:ident| $model:expr) => {
        Op { name: $name, args: &[$($ak),*], call: |$a: &[Arg]| -> Result<Out, Error> { $call }, model: |$m: &[Arg]| -> Model { $model } }
    };
}

macro_rules! trunc_round_ops {
    ($($prefix:expr, $ak:expr, $get:ident, $wrap:ident);*) => {
        vec![
            $(
            op!(concat!($prefix, ".trunc_century"), [$ak], |a| Ok($wrap($get(&a[0]).trunc_century()?))),
            op!(concat!($prefix, ".trunc_year"), [$ak], |a| Ok($wrap($get(&a[0]).trunc_year()?))),
            op!(concat!($prefix, ".trunc_iso_year"), [$ak], |a| Ok($wrap($get(&a[0]).trunc_iso_year()?))),
            op!(concat!($prefix, ".trunc_quarter"), [$ak], |a| Ok($wrap($get(&a[0]).trunc_quarter()?))),
            op!(concat!($prefix, ".trunc_month"), [$ak], |a| Ok($wrap($get(&a[0]).trunc_month()?))),
            op!(concat!($prefix, ".trunc_week"), [$ak], |a| Ok($wrap($get(&a[0]).trunc_week()?))),
            op!(concat!($prefix, ".trunc_iso_week"), [$ak], |a| Ok($wrap($get(&a[0]).trunc_iso_week()?))),
            op!(concat!($prefix, ".trunc_month_start_week"), [$ak], |a| Ok($wrap($get(&a[0]).trunc_month_start_week()?))),
            op!(concat!($prefix, ".trunc_day"), [$ak], |a| Ok($wrap($get(&a[0]).trunc_day()?))),
            op!(concat!($prefix, ".trunc_sunday_start_week"), [$ak], |a| Ok($wrap($get(&a[0]).trunc_sunday_start_week()?))),
            op!(concat!($prefix, ".trunc_hour"), [$ak], |a| Ok($wrap($get(&a[0]).trunc_hour()?))),
            op!(concat!($prefix, ".trunc_minute"), [$ak], |a| Ok($wrap($get(&a[0]).trunc_minute()?))),
            op!(concat!($prefix, ".round_century"), [$ak], |a| Ok($wrap($get(&a[0]).round_century()?))),
            op!(concat!($prefix, ".round_year"), [$ak], |a| Ok($wrap($get(&a[0]).round_year()?))),
            op!(concat!($prefix, ".round_iso_year"), [$ak], |a| Ok($wrap($get(&a[0]).round_iso_year()?))),
            op!(concat!($prefix, ".round_quarter"), [$ak], |a| Ok($wrap($get(&a[0]).round_quarter()?))),
            op!(concat!($prefix, ".round_month"), [$ak], |a| Ok($wrap($get(&a[0]).round_month()?))),
            op!(concat!($prefix, ".round_week"), [$ak], |a| Ok($wrap($get(&a[0]).round_week()?))),
            op!(concat!($prefix, ".round_iso_week"), [$ak], |a| Ok($wrap($get(&a[0]).round_iso_week()?))),
            op!(concat!($prefix, ".round_month_start_week"), [$ak], |a| Ok($wrap($get(&a[0]).round_month_start_week()?))),
            op!(concat!($prefix, ".round_day"), [$ak], |a| Ok($wrap($get(&a[0]).round_day()?))),
            op!(concat!($prefix, ".round_sunday_start_week"), [$ak], |a| Ok($wrap($get(&a[0]).round_sunday_start_week()?))),
            op!(concat!($prefix, ".round_hour"), [$ak], |a| Ok($wrap($get(&a[0]).round_hour()?))),
            op!(concat!($prefix, ".round_minute"), [$ak], |a| Ok($wrap($get(&a[0]).round_minute()?))),
            )*
        ]
    };
}

/// Operations with an exact integer model (the rows C08 decides).
pub fn linear_ops() -> Vec<Op> {
    vec![
        op!("Date.add_days", [KD, I32], |a| Ok(vd(d(&a[0]).add_days(i32a(&a[1]))?)), |m| Model::Exact(Kind::Date, raw(&m[0]) + raw(&m[1]))),
        op!("Date.sub_days", [KD, I32], |a| Ok(vd(d(&a[0]).sub_days(i32a(&a[1]))?)), |m| Model::Exact(Kind::Date, raw(&m[0]) - raw(&m[1]))),
        op!("Date.sub_date", [KD, KD], |a| Ok(Out::I32(d(&a[0]).sub_date(d(&a[1])))), |m| Model::Int(raw(&m[0]) - raw(&m[1]))),
        op!("Date.add_interval_dt", [KD, KDT], |a| Ok(vts(d(&a[0]).add_interval_dt(dt(&a[1]))?)), |m| Model::Exact(Kind::Ts, raw(&m[0]) * US_PER_DAY + raw(&m[1]))),
        op!("Date.sub_interval_dt", [KD, KDT], |a| Ok(vts(d(&a[0]).sub_interval_dt(dt(&a[1]))?)), |m| Model::Exact(Kind::Ts, raw(&m[0]) * US_PER_DAY - raw(&m[1]))),
        op!("Date.add_time", [KD, KT], |a| Ok(vts(d(&a[0]).add_time(t(&a[1])))), |m| Model::Exact(Kind::Ts, raw(&m[0]) * US_PER_DAY + raw(&m[1]))),
        op!("Date.and_time", [KD, KT], |a| Ok(vts(d(&a[0]).and_time(t(&a[1])))), |m| Model::Exact(Kind::Ts, raw(&m[0]) * US_PER_DAY + raw(&m[1]))),
        op!("Date.sub_time", [KD, KT], |a| Ok(vts(d(&a[0]).sub_time(t(&a[1]))?)), |m| Model::Exact(Kind::Ts, raw(&m[0]) * US_PER_DAY - raw(&m[1]))),
        op!("Date.sub_timestamp", [KD, KTS], |a| Ok(vdt(d(&a[0]).sub_timestamp(ts(&a[1])))), |m| Model::Exact(Kind::DT, raw(&m[0]) * US_PER_DAY - raw(&m[1]))),
        op!("Timestamp.new", [KD, KT], |a| Ok(vts(Timestamp::new(d(&a[0]), t(&a[1])))), |m| Model::Exact(Kind::Ts, raw(&m[0]) * US_PER_DAY + raw(&m[1]))),
        op!("Timestamp.from(Date)", [KD], |a| Ok(vts(Timestamp::from(d(&a[0])))), |m| Model::Exact(Kind::Ts, raw(&m[0]) * US_PER_DAY)),
        op!("Timestamp.add_interval_dt", [KTS, KDT], |a| Ok(vts(ts(&a[0]).add_interval_dt(dt(&a[1]))?)), |m| Model::Exact(Kind::Ts, raw(&m[0]) + raw(&m[1]))),
        op!("Timestamp.sub_interval_dt", [KTS, KDT], |a| Ok(vts(ts(&a[0]).sub_interval_dt(dt(&a[1]))?)), |m| Model::Exact(Kind::Ts, raw(&m[0]) - raw(&m[1]))),
        op!("Timestamp.add_time", [KTS, KT], |a| Ok(vts(ts(&a[0]).add_time(t(&a[1]))?)), |m| Model::Exact(Kind::Ts, raw(&m[0]) + raw(&m[1]))),
        op!("Timestamp.sub_time", [KTS, KT], |a| Ok(vts(ts(&a[0]).sub_time(t(&a[1]))?)), |m| Model::Exact(Kind::Ts, raw(&m[0]) - raw(&m[1]))),
        op!("Timestamp.sub_date", [KTS, KD], |a| Ok(vdt(ts(&a[0]).sub_date(d(&a[1])))), |m| Model::Exact(Kind::DT, raw(&m[0]) - raw(&m[1]) * US_PER_DAY)),
        op!("Timestamp.sub_timestamp", [KTS, KTS], |a| Ok(vdt(ts(&a[0]).sub_timestamp(ts(&a[1])))), |m| Model::Exact(Kind::DT, raw(&m[0]) - raw(&m[1]))),
        op!("IntervalYM.add_interval_ym", [KYM, KYM], |a| Ok(vym(ym(&a[0]).add_interval_ym(ym(&a[1]))?)), |m| Model::Exact(Kind::YM, raw(&m[0]) + raw(&m[1]))),
        op!("IntervalYM.sub_interval_ym", [KYM, KYM], |a| Ok(vym(ym(&a[0]).sub_interval_ym(ym(&a[1]))?)), |m| Model::Exact(Kind::YM, raw(&m[0]) - raw(&m[1]))),
        op!("IntervalYM.neg", [KYM], |a| Ok(vym(-ym(&a[0]))), |m| Model::Exact(Kind::YM, -raw(&m[0]))),
        op!("IntervalDT.add_interval_dt", [KDT, KDT], |a| Ok(vdt(dt(&a[0]).add_interval_dt(dt(&a[1]))?)), |m| Model::Exact(Kind::DT, raw(&m[0]) + raw(&m[1]))),
        op!("IntervalDT.sub_interval_dt", [KDT, KDT], |a| Ok(vdt(dt(&a[0]).sub_interval_dt(dt(&a[1]))?)), |m| Model::Exact(Kind::DT, raw(&m[0]) - raw(&m[1]))),
        op!("IntervalDT.sub_time", [KDT, KT], |a| Ok(vdt(dt(&a[0]).sub_time(t(&a[1]))?)), |m| Model::Exact(Kind::DT, raw(&m[0]) - raw(&m[1]))),
        op!("IntervalDT.neg", [KDT], |a| Ok(vdt(-dt(&a[0]))), |m| Model::Exact(Kind::DT, -raw(&m[0]))),
        op!("IntervalDT.from(Time)", [KT], |a| Ok(vdt(IntervalDT::from(t(&a[0])))), |m| Model::Exact(Kind::DT, raw(&m[0]))),
        op!("Time.sub_time", [KT, KT], |a| Ok(vdt(t(&a[0]).sub_time(t(&a[1])))), |m| Model::Exact(Kind::DT, raw(&m[0]) - raw(&m[1]))),
        op!("OracleDate.add_time", [KO, KT], |a| Ok(vts(ora(&a[0]).add_time(t(&a[1]))?)), |m| Model::Exact(Kind::Ts, raw(&m[0]) + raw(&m[1]))),
        op!("OracleDate.sub_time", [KO, KT], |a| Ok(vts(ora(&a[0]).sub_time(t(&a[1]))?)), |m| Model::Exact(Kind::Ts, raw(&m[0]) - raw(&m[1]))),
        op!("OracleDate.sub_timestamp", [KO, KTS], |a| Ok(vdt(ora(&a[0]).sub_timestamp(ts(&a[1])))), |m| Model::Exact(Kind::DT, raw(&m[0]) - raw(&m[1]))),
        op!("Timestamp.oracle_sub_date", [KTS, KO], |a| Ok(vdt(ts(&a[0]).oracle_sub_date(ora(&a[1])))), |m| Model::Exact(Kind::DT, raw(&m[0]) - raw(&m[1]))),
        op!("Timestamp.from(OracleDate)", [KO], |a| Ok(vts(Timestamp::from(ora(&a[0])))), |m| Model::Exact(Kind::Ts, raw(&m[0]))),
        op!("Date.try_from_days", [I32], |a| Ok(vd(Date::try_from_days(i32a(&a[0]))?)), |m| Model::Exact(Kind::Date, raw(&m[0]))),
        op!("Time.try_from_usecs", [I64], |a| Ok(vt(Time::try_from_usecs(i64a(&a[0]))?)), |m| Model::Exact(Kind::Time, raw(&m[0]))),
        op!("Timestamp.try_from_usecs", [I64], |a| Ok(vts(Timestamp::try_from_usecs(i64a(&a[0]))?)), |m| Model::Exact(Kind::Ts, raw(&m[0]))),
        op!("IntervalYM.try_from_months", [I32], |a| Ok(vym(IntervalYM::try_from_months(i32a(&a[0]))?)), |m| Model::Exact(Kind::YM, raw(&m[0]))),
        op!("IntervalDT.try_from_usecs", [I64], |a| Ok(vdt(IntervalDT::try_from_usecs(i64a(&a[0]))?)), |m| Model::Exact(Kind::DT, raw(&m[0]))),
        op!("OracleDate.try_from_usecs", [I64], |a| Ok(vora(OracleDate::try_from_usecs(i64a(&a[0]))?)), |m| Model::Exact(Kind::Ora, raw(&m[0]))),
    ]
}

/// All other operations (decided by their own properties; here: validity and no-panic).
pub fn other_ops() -> Vec<Op> {
    let mut v = vec![
        op!("Date.try_from_ymd", [I32, U32, U32], |a| Ok(vd(Date::try_from_ymd(i32a(&a[0]), u32a(&a[1]), u32a(&a[2]))?))),
        op!("Date.is_valid", [I32, U32, U32], |a| Ok(Out::Bool(Date::is_valid(i32a(&a[0]), u32a(&a[1]), u32a(&a[2]))))),
        op!("Date.and_hms", [KD, U32, U32, U32, U32], |a| Ok(vts(d(&a[0]).and_hms(u32a(&a[1]), u32a(&a[2]), u32a(&a[3]), u32a(&a[4]))?))),
        op!("Date.add_interval_ym", [KD, KYM], |a| Ok(vts(d(&a[0]).add_interval_ym(ym(&a[1]))?))),
        op!("Date.sub_interval_ym", [KD, KYM], |a| Ok(vts(d(&a[0]).sub_interval_ym(ym(&a[1]))?))),
        op!("Date.last_day_of_month", [KD], |a| Ok(vd(d(&a[0]).last_day_of_month()))),
        op!("Date.day_of_week", [KD], |a| Ok(Out::I32(d(&a[0]).day_of_week() as i32))),
        op!("Date.extract", [KD], |a| {
            let (y, m, dd) = d(&a[0]).extract();
            Ok(vd(Date::try_from_ymd(y, m, dd)?))
        }),
        op!("Time.try_from_hms", [U32, U32, U32, U32], |a| Ok(vt(Time::try_from_hms(u32a(&a[0]), u32a(&a[1]), u32a(&a[2]), u32a(&a[3]))?))),
        op!("Time.is_valid", [U32, U32, U32, U32], |a| Ok(Out::Bool(Time::is_valid(u32a(&a[0]), u32a(&a[1]), u32a(&a[2]), u32a(&a[3]))))),
        op!("Time.add_interval_dt", [KT, KDT], |a| Ok(vt(t(&a[0]).add_interval_dt(dt(&a[1]))))),
        op!("Time.sub_interval_dt", [KT, KDT], |a| Ok(vt(t(&a[0]).sub_interval_dt(dt(&a[1]))))),
        op!("Time.mul_f64", [KT, F64], |a| Ok(vdt(t(&a[0]).mul_f64(f64a(&a[1]))?))),
        op!("Time.div_f64", [KT, F64], |a| Ok(vdt(t(&a[0]).div_f64(f64a(&a[1]))?))),
        op!("Time.from(Timestamp)", [KTS], |a| Ok(vt(Time::from(ts(&a[0]))))),
        op!("Time.from(IntervalDT)", [KDT], |a| Ok(vt(Time::from(dt(&a[0]))))),
        op!("Time.from(OracleDate)", [KO], |a| Ok(vt(Time::from(ora(&a[0]))))),
        op!("Time.extract", [KT], |a| {
            let (h, m, s, u) = t(&a[0]).extract();
            Ok(vt(Time::try_from_hms(h, m, s, u)?))
        }),
        op!("Timestamp.extract", [KTS], |a| {
            let (dd, tt) = ts(&a[0]).extract();
            Ok(Out::Pair(Val::new(Kind::Date, dd.days() as i128), Val::new(Kind::Time, tt.usecs() as i128)))
        }),
        op!("Timestamp.add_interval_ym", [KTS, KYM], |a| Ok(vts(ts(&a[0]).add_interval_ym(ym(&a[1]))?))),
        op!("Timestamp.sub_interval_ym", [KTS, KYM], |a| Ok(vts(ts(&a[0]).sub_interval_ym(ym(&a[1]))?))),
        op!("Timestamp.add_days", [KTS, F64], |a| Ok(vts(ts(&a[0]).add_days(f64a(&a[1]))?))),
        op!("Timestamp.sub_days", [KTS, F64], |a| Ok(vts(ts(&a[0]).sub_days(f64a(&a[1]))?))),
        op!("Timestamp.last_day_of_month", [KTS], |a| Ok(vts(ts(&a[0]).last_day_of_month()))),
        op!("Timestamp.oracle_add_days", [KTS, F64], |a| Ok(vora(ts(&a[0]).oracle_add_days(f64a(&a[1]))?))),
        op!("Timestamp.oracle_sub_days", [KTS, F64], |a| Ok(vora(ts(&a[0]).oracle_sub_days(f64a(&a[1]))?))),
        op!("IntervalYM.try_from_ym", [U32, U32], |a| Ok(vym(IntervalYM::try_from_ym(u32a(&a[0]), u32a(&a[1]))?))),
        op!("IntervalYM.is_valid_ym", [U32, U32], |a| Ok(Out::Bool(IntervalYM::is_valid_ym(u32a(&a[0]), u32a(&a[1]))))),
        op!("IntervalYM.mul_f64", [KYM, F64], |a| Ok(vym(ym(&a[0]).mul_f64(f64a(&a[1]))?))),
        op!("IntervalYM.div_f64", [KYM, F64], |a| Ok(vym(ym(&a[0]).div_f64(f64a(&a[1]))?))),
        op!("IntervalYM.extract", [KYM], |a| {
            let (s, y, m) = ym(&a[0]).extract();
            let v = IntervalYM::try_from_ym(y, m)?;
            Ok(vym(if s == sqldatetime::Sign::Negative { -v } else { v }))
        }),
        op!("IntervalDT.try_from_dhms", [U32, U32, U32, U32, U32], |a| Ok(vdt(IntervalDT::try_from_dhms(u32a(&a[0]), u32a(&a[1]), u32a(&a[2]), u32a(&a[3]), u32a(&a[4]))?))),
        op!("IntervalDT.is_valid", [U32, U32, U32, U32, U32], |a| Ok(Out::Bool(IntervalDT::is_valid(u32a(&a[0]), u32a(&a[1]), u32a(&a[2]), u32a(&a[3]), u32a(&a[4]))))),
        op!("IntervalDT.mul_f64", [KDT, F64], |a| Ok(vdt(dt(&a[0]).mul_f64(f64a(&a[1]))?))),
        op!("IntervalDT.div_f64", [KDT, F64], |a| Ok(vdt(dt(&a[0]).div_f64(f64a(&a[1]))?))),
        op!("IntervalDT.extract", [KDT], |a| {
            let (s, dd, h, m, sec, u) = dt(&a[0]).extract();
            let v = IntervalDT::try_from_dhms(dd, h, m, sec, u)?;
            Ok(vdt(if s == sqldatetime::Sign::Negative { -v } else { v }))
        }),
        op!("OracleDate.new", [KD, KT], |a| Ok(vora(OracleDate::new(d(&a[0]), t(&a[1]))))),
        op!("OracleDate.from(Timestamp)", [KTS], |a| Ok(vora(OracleDate::from(ts(&a[0]))))),
        op!("OracleDate.extract", [KO], |a| {
            let (dd, tt) = ora(&a[0]).extract();
            Ok(Out::Pair(Val::new(Kind::Date, dd.days() as i128), Val::new(Kind::Time, tt.usecs() as i128)))
        }),
        op!("OracleDate.add_interval_dt", [KO, KDT], |a| Ok(vora(ora(&a[0]).add_interval_dt(dt(&a[1]))?))),
        op!("OracleDate.sub_interval_dt", [KO, KDT], |a| Ok(vora(ora(&a[0]).sub_interval_dt(dt(&a[1]))?))),
        op!("OracleDate.add_interval_ym", [KO, KYM], |a| Ok(vora(ora(&a[0]).add_interval_ym(ym(&a[1]))?))),
        op!("OracleDate.sub_interval_ym", [KO, KYM], |a| Ok(vora(ora(&a[0]).sub_interval_ym(ym(&a[1]))?))),
        op!("OracleDate.add_days", [KO, F64], |a| Ok(vora(ora(&a[0]).add_days(f64a(&a[1]))?))),
        op!("OracleDate.sub_days", [KO, F64], |a| Ok(vora(ora(&a[0]).sub_days(f64a(&a[1]))?))),
        op!("OracleDate.sub_date", [KO, KO], |a| Ok(Out::F64(ora(&a[0]).sub_date(ora(&a[1]))))),
        op!("OracleDate.last_day_of_month", [KO], |a| Ok(vora(ora(&a[0]).last_day_of_month()))),
    ];
    v.extend(trunc_round_ops!("Date", KD, d, vd; "Timestamp", KTS, ts, vts; "OracleDate", KO, ora, vora));
    v
}

pub fn all_ops() -> Vec<Op> {
    let mut v = linear_ops();
    v.extend(other_ops());
    v
}

#[allow(dead_code)]
fn _unused(_: Result<Timestamp, Error>) {
    let _ = Timestamp::try_from(Time::ZERO);
}

// ---------------------------------------------------------------------------------------
// operand pools per argument kind

use crate::pools;

#[derive(Clone, Copy, PartialEq, Eq)]
pub enum PoolSize {
    Small,
    Full,
}

pub fn i64_scalars() -> Vec<i128> {
    let mut v: Vec<i128> = vec![];
    let lims = [0i128, US_PER_DAY, ts_min(), ts_max(), ora_max(), DT_MAX, -DT_MAX, US_PER_SEC, cal().first as i128, cal().last as i128, YM_MAX, -YM_MAX];
    for l in lims {
        for d in [-2i128, -1, 0, 1, 2, 1_000_000, -1_000_000] {
            v.push(l + d);
        }
    }
    v.extend_from_slice(&[i64::MIN as i128, i64::MIN as i128 + 1, i64::MAX as i128 - 1, i64::MAX as i128, i32::MIN as i128, i32::MAX as i128]);
    v.sort();
    v.dedup();
    v
}

pub fn u32_scalars() -> Vec<i128> {
    vec![0, 1, 2, 11, 12, 13, 23, 24, 28, 29, 30, 31, 32, 59, 60, 61, 99, 100, 255, 256, 9999, 10000, 999_999, 1_000_000, 99_999_999, 100_000_000, 100_000_001, 177_999_999, 178_000_000, 178_000_001, 357_913_941, 357_913_942, u32::MAX as i128 - 1, u32::MAX as i128]
}

pub fn arg_pool(k: ArgKind, seed: u64, size: PoolSize) -> Vec<Arg> {
    let nr = if size == PoolSize::Full { 200 } else { 24 };
    match k {
        ArgKind::K(Kind::Ts) if size == PoolSize::Small => pools::ts_pool_small(seed, nr).into_iter().map(|r| Arg::V(Val::new(Kind::Ts, r))).collect(),
        ArgKind::K(Kind::Ora) if size == PoolSize::Small => pools::ora_pool_small(seed, nr).into_iter().map(|r| Arg::V(Val::new(Kind::Ora, r))).collect(),
        ArgKind::K(Kind::DT) if size == PoolSize::Small => pools::dt_pool_small(seed, nr).into_iter().map(|r| Arg::V(Val::new(Kind::DT, r))).collect(),
        ArgKind::K(kind) => pools::pool(kind, seed, nr).into_iter().map(Arg::V).collect(),
        ArgKind::I32 => pools::i32_scalars().into_iter().map(|x| Arg::I32(x as i32)).collect(),
        ArgKind::I64 => i64_scalars().into_iter().map(|x| Arg::I64(x as i64)).collect(),
        ArgKind::U32 => u32_scalars().into_iter().map(|x| Arg::U32(x as u32)).collect(),
        ArgKind::F64 => pools::f64_scalars().into_iter().map(Arg::F64).collect(),
    }
}

pub fn arg_to_i128(a: &Arg) -> i128 {
    match a {
        Arg::F64(x) => x.to_bits() as i128,
        other => raw(other),
    }
}

pub fn arg_from_i128(k: ArgKind, x: i128) -> Arg {
    match k {
        ArgKind::K(kind) => Arg::V(Val::new(kind, x)),
        ArgKind::I32 => Arg::I32(x as i32),
        ArgKind::I64 => Arg::I64(x as i64),
        ArgKind::U32 => Arg::U32(x as u32),
        ArgKind::F64 => Arg::F64(f64::from_bits(x as u64)),
    }
}

pub fn describe_args(args: &[Arg]) -> String {
    let mut s = String::new();
    for (i, a) in args.iter().enumerate() {
        if i > 0 {
            s.push_str(", ");
        }
        match a {
            Arg::V(v) => s.push_str(&format!("{}({})", v.kind.name(), v.raw)),
            Arg::I32(x) => s.push_str(&format!("{x}i32")),
            Arg::I64(x) => s.push_str(&format!("{x}i64")),
            Arg::U32(x) => s.push_str(&format!("{x}u32")),
            Arg::F64(x) => s.push_str(&format!("{x:e}f64[bits {:#x}]", x.to_bits())),
        }
    }
    s
}

/// Are all value arguments inside their type's range (precondition of every call)?
pub fn args_valid(args: &[Arg]) -> bool {
    args.iter().all(|a| match a {
        Arg::V(v) => ad::in_range(v),
        _ => true,
    })
}
