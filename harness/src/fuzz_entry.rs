//! Bodies of the libFuzzer targets as plain functions, so that a crash artifact can be
//! replayed through the ordinary harness binary (no nightly toolchain needed).
//! Each returns Err(message) on a semantic violation; a library panic simply propagates
//! (libFuzzer turns it into a crash artifact; the replay path catches it).

use crate::model::text::*;
use crate::props::{c03, c05, c06, c19};
use crate::speller;
use crate::strat;

fn lossy(b: &[u8]) -> String {
    String::from_utf8_lossy(b).into_owned()
}

/// input = picture bytes, '\n', input-text bytes
pub fn split(data: &[u8]) -> (String, String) {
    match data.iter().position(|&c| c == b'\n') {
        Some(p) => (lossy(&data[..p]), lossy(&data[p + 1..])),
        None => (lossy(data), String::new()),
    }
}

/// C03: no call panics. (Under libFuzzer a panic aborts before `guarded` can catch it.)
pub fn nopanic(data: &[u8]) -> Result<(), String> {
    let (pic, text) = split(data);
    c03::check_text(&pic, &text).map(|_| ())
}

/// C19: acceptance and probe rendering against the reference tokenizer.
pub fn picture(data: &[u8]) -> Result<(), String> {
    let pic = lossy(data);
    c19::check_picture(&pic).map(|_| ())
}

struct Rd<'a> {
    d: &'a [u8],
    p: usize,
}
impl<'a> Rd<'a> {
    fn u8(&mut self) -> u8 {
        let v = self.d.get(self.p).copied().unwrap_or(0);
        self.p += 1;
        v
    }
    fn u32(&mut self) -> u32 {
        u32::from_le_bytes([self.u8(), self.u8(), self.u8(), self.u8()])
    }
    fn u128(&mut self) -> u128 {
        let mut v = 0u128;
        for _ in 0..16 {
            v = v << 8 | self.u8() as u128;
        }
        v
    }
}

fn decode(data: &[u8], nchoices: usize) -> (Kind, i128, Vec<u32>, u32) {
    let mut r = Rd { d: data, p: 0 };
    let kind = Kind::from_index(r.u8() as usize % 6);
    let neg = r.u8() as u32;
    let (lo, hi) = strat::limits(kind);
    let span = (hi - lo) as u128 + 1;
    let sel = r.u8();
    let x = r.u128();
    let mut raw = match sel % 4 {
        0 => lo + (x % span) as i128,
        1 => lo + (x % span.min(200_000_000_000)) as i128,
        2 => hi - (x % span.min(200_000_000_000)) as i128,
        _ => ((x % 400_000_000_000) as i128 - 200_000_000_000).clamp(lo, hi),
    };
    if kind == Kind::Ora {
        raw = raw.div_euclid(1_000_000) * 1_000_000;
    }
    let choices: Vec<u32> = (0..nchoices).map(|_| r.u32()).collect();
    (kind, raw, choices, neg)
}

/// C05: speller-built text must parse to the value it denotes / be rejected.
pub fn parse(data: &[u8]) -> Result<(), String> {
    let (kind, raw, choices, neg) = decode(data, c05::NCHOICES);
    let neg = if neg < 128 { 0 } else { 1 + (neg - 128) % speller::PERTURBS.len() as u32 };
    let b = speller::build(kind, raw, &choices, neg);
    if tokenize(&b.picture).is_none() {
        return Ok(()); // generator produced a picture the reference rejects: not a test case
    }
    c05::check_parse(b.kind, &b.picture, &b.text, b.expect)
}

/// C06: format -> parse round trip under a generated lossless picture.
pub fn roundtrip(data: &[u8]) -> Result<(), String> {
    let (kind, raw, choices, _) = decode(data, 64);
    let (toks, _) = c06::lossless_picture(kind, raw, &choices);
    let pic = crate::gen::spell_all(&toks);
    if tokenize(&pic).is_none() {
        return Ok(()); // generator produced a picture the reference rejects: not a test case
    }
    c06::check_roundtrip(kind, raw, &pic)
}

pub fn by_name(target: &str, data: &[u8]) -> Option<Result<(), String>> {
    Some(match target {
        "nopanic" => nopanic(data),
        "picture" => picture(data),
        "parse" => parse(data),
        "roundtrip" => roundtrip(data),
        _ => return None,
    })
}

pub fn property_of(target: &str) -> &'static str {
    match target {
        "nopanic" => "C03",
        "picture" => "C19",
        "parse" => "C05",
        "roundtrip" => "C06",
        _ => "C03",
    }
}
