//! Bodies of the libFuzzer targets as plain functions, so that a crash artifact can be
//! replayed through the ordinary harness binary (no nightly toolchain needed).
//! Each returns Err(message) on a semantic violation; a library panic simply propagates
//! (libFuzzer turns it into a crash artifact; the replay path catches it).

use crate::model::text::*;
use crate::props::{c03, c05, c06, c19};
use crate::speller;
use crate::strat;

fn lossy(b: &[u8]) -> String {
    String::from_utf8_lossy(b).into_owned()
}

/// input = picture bytes, '\n', input-text bytes
pub fn split(data: &[u8]) -> (String, String) {
    match data.iter().position(|&c| c == b'\n') {
        Some(p) => (lossy(&data[..p]), lossy(&data[p + 1..])),
        None => (lossy(data), String::new()),
    }
}

/// C03: no call panics. (Under libFuzzer a panic aborts before `guarded` can catch it.)
pub fn nopanic(data: &[u8]) -> Result<(), String> {
    let (pic, text) = split(data);
    c03::check_text(&pic, &text).map(|_| ())
}

/// C19: acceptance and probe rendering against the reference tokenizer.
pub fn picture(data: &[u8]) -> Result<(), String> {
    let pic = lossy(data);
    c19::check_picture(&pic).map(|_| ())
}

struct Rd<'a> {
    d: &'a [u8],
    p: usize,
}
impl<'a> Rd<'a> {
    fn u8(&mut self) -> u8 {
        let v = self.d.get(self.p).copied().unwrap_or(0);
        self.p += 1;
        v
    }
    fn u32(&mut self) -> u32 {
        u32::from_le_bytes([self.u8(), self.u8(), self.u8(), self.u8()])
    }
    fn u128(&mut self) -> u128 {
        let mut v = 0u128;
        for _ in 0..16 {
            v = v << 8 | self.u8() as u128;
        }
        v
    }
}

fn decode(data: &[u8], nchoices: usize) -> (Kind, i128, Vec<u32>, u32) {
    let mut r = Rd { d: data, p: 0 };
    let kind = Kind::from_index(r.u8() as usize % 6);
    let neg = r.u8() as u32;
    let (lo, hi) = strat::limits(kind);
    let span = (hi - lo) as u128 + 1;
    let sel = r.u8();
    let x = r.u128();
    let mut raw = match sel % 4 {
        0 => lo + (x % span) as i128,
        1 => lo + (x % span.min(200_000_000_000)) as i128,
        2 => hi - (x % span.min(200_000_000_000)) as i128,
        _ => ((x % 400_000_000_000) as i128 - 200_000_000_000).clamp(lo, hi),
    };
    if kind == Kind::Ora {
        raw = raw.div_euclid(1_000_000) * 1_000_000;
    }
    let choices: Vec<u32> = (0..nchoices).map(|_| r.u32()).collect();
    (kind, raw, choices, neg)
}

/// C05: speller-built text must parse to the value it denotes / be rejected.
pub fn parse(data: &[u8]) -> Result<(), String> {
    let (kind, raw, choices, neg) = decode(data, c05::NCHOICES);
    let neg = if neg < 128 { 0 } else { 1 + (neg - 128) % speller::PERTURBS.len() as u32 };
    let b = speller::build(kind, raw, &choices, neg);
    if tokenize(&b.picture).is_none() {
        return Ok(()); // generator produced a picture the reference rejects: not a test case
    }
    c05::check_parse(b.kind, &b.picture, &b.text, b.expect)
}

/// C06: format -> parse round trip under a generated lossless picture.
pub fn roundtrip(data: &[u8]) -> Result<(), String> {
    let (kind, raw, choices, _) = decode(data, 64);
    let (toks, _) = c06::lossless_picture(kind, raw, &choices);
    let pic = crate::gen::spell_all(&toks);
    if tokenize(&pic).is_none() {
        return Ok(()); // generator produced a picture the reference rejects: not a test case
    }
    c06::check_roundtrip(kind, raw, &pic)
}

pub fn by_name(target: &str, data: &[u8]) -> Option<Result<(), String>> {
    if let Some(prop) = target.strip_prefix("values.") {
        return Some(values(prop, data));
    }
    Some(match target {
        "nopanic" => nopanic(data),
        "picture" => picture(data),
        "parse" => parse(data),
        "roundtrip" => roundtrip(data),
        _ => return None,
    })
}

pub fn property_of(target: &str) -> &'static str {
    if let Some(prop) = target.strip_prefix("values.") {
        for p in ["C02", "C04", "C06", "C07", "C08", "C09", "C10", "C11", "C12", "C13", "C14", "C15", "C16", "C17"] {
            if p == prop {
                return p;
            }
        }
    }
    match target {
        "nopanic" => "C03",
        "picture" => "C19",
        "parse" => "C05",
        "roundtrip" => "C06",
        _ => "C03",
    }
}

// ---------------------------------------------------------------------------------------
// `values` target: raw integers / doubles fed to the value oracles of one property. The
// bytes map (almost) directly onto the microsecond / day / month counts, so libFuzzer's
// comparison tracing (-use_value_profile=1) can steer toward interior constants that the
// library compares against (fast-path thresholds, table sizes, narrowing limits).

use crate::engine::Verdict;
use crate::model::cal::*;
use crate::ops;
use crate::props::{c02, c04, c07, c08, c09, c10, c11, c12, c13, c14, c15, c16, c17};

fn fold(x: i64, lo: i128, hi: i128) -> i128 {
    let x = x as i128;
    if x >= lo && x <= hi {
        x
    } else {
        lo + x.rem_euclid(hi - lo + 1)
    }
}

pub fn values(prop: &str, data: &[u8]) -> Result<(), String> {
    let mut r = Rd { d: data, p: 0 };
    let sel = r.u8();
    let sel2 = r.u8();
    let i64le = |r: &mut Rd| -> i64 {
        let mut b = [0u8; 8];
        for k in 0..8 {
            b[k] = r.u8();
        }
        i64::from_le_bytes(b)
    };
    let a = i64le(&mut r);
    let b = i64le(&mut r);
    let cbits = i64le(&mut r) as u64;
    let f = f64::from_bits(cbits);
    let c = cal();
    let ts = fold(a, ts_min(), ts_max());
    let ts2 = fold(b, ts_min(), ts_max());
    let (n, t) = (ts.div_euclid(US_PER_DAY) as i32, ts.rem_euclid(US_PER_DAY) as i64);
    let ora = ts.div_euclid(US_PER_SEC) * US_PER_SEC;
    let time = fold(b, 0, US_PER_DAY - 1);
    let dt = fold(b, -DT_MAX, DT_MAX);
    let dt_a = fold(a, -DT_MAX, DT_MAX);
    let ym = fold(b, -YM_MAX, YM_MAX);
    let date = fold(a, c.first as i128, c.last as i128);
    let v2r = |v: Verdict| match v {
        Verdict::Fail(m) => Err(m),
        _ => Ok(()),
    };
    match prop {
        "C07" => {
            c07::check_pair(n, t)?;
            c07::check_time(time as i64)?;
            c07::check_order(ts as i64, ts2 as i64)
        }
        "C08" => {
            let lops = ops::linear_ops();
            let op = &lops[sel as usize % lops.len()];
            let raws = [a, b];
            let args: Vec<ops::Arg> = op
                .args
                .iter()
                .enumerate()
                .map(|(k, ak)| match ak {
                    ops::ArgKind::K(kind) => {
                        let (lo, hi) = strat::limits(*kind);
                        let mut x = fold(raws[k.min(1)], lo, hi);
                        if *kind == Kind::Ora {
                            x = x.div_euclid(US_PER_SEC) * US_PER_SEC;
                        }
                        ops::Arg::V(Val::new(*kind, x))
                    }
                    ops::ArgKind::I32 => ops::Arg::I32(raws[k.min(1)] as i32),
                    ops::ArgKind::I64 => ops::Arg::I64(raws[k.min(1)]),
                    ops::ArgKind::U32 => ops::Arg::U32(raws[k.min(1)] as u32),
                    ops::ArgKind::F64 => ops::Arg::F64(f),
                })
                .collect();
            c08::judge_linear(op, &args).map(|_| ())?;
            c08::check_add_days(ts, f, sel2 & 1 == 1).map(|_| ())
        }
        "C09" => {
            let which = sel % 3;
            let tt = if which == 2 { t / 1_000_000 * 1_000_000 } else if which == 0 { 0 } else { t };
            c09::check_add_ym(which, n, tt, ym as i32, sel2 & 1 == 1)?;
            c09::check_last_day(which, n, tt)
        }
        "C10" => {
            let u = UNITS[sel as usize % 12];
            let which = (sel2 % 3) as u8;
            let tt = if which == 2 { t / 1_000_000 * 1_000_000 } else { t };
            c10::check_trunc(which, u, &c10::bounds_cached(u), n, tt)
        }
        "C11" => {
            let u = UNITS[sel as usize % 12];
            let which = (sel2 % 3) as u8;
            let tt = if which == 2 { t / 1_000_000 * 1_000_000 } else { t };
            v2r(c11::check_round(which, u, &c10::bounds_cached(u), n, tt))
        }
        "C12" => {
            c12::check_addsub(time as i64, dt_a as i64, sel & 1 == 1).map(|_| ())?;
            c12::check_cmp(time as i64, dt_a as i64)?;
            c12::check_from_interval(dt_a as i64)
        }
        "C13" => {
            c13::check_dt(dt_a as i64)?;
            c13::check_ym(ym as i32)
        }
        "C14" => {
            let which = sel % 3;
            let x = match which {
                0 => ym,
                1 => dt_a,
                _ => fold(a, 0, US_PER_DAY - 1),
            };
            c14::check_scale(which, x, f, sel2 & 1 == 1).map(|_| ())
        }
        "C16" => {
            c16::check_convert(ts)?;
            c16::check_add_dt(ora, dt, sel & 1 == 1)?;
            c16::check_add_days(sel2 % 4, ts, f).map(|_| ())
        }
        "C17" => {
            let u = UNITS[sel as usize % 12];
            let tt = t / 1_000_000 * 1_000_000;
            c17::check_unit(sel2 & 1 == 1, u, n, tt)?;
            c17::check_add_ym(n, tt, ym as i32)?;
            c17::check_add_dt(n, tt, dt)?;
            c17::check_cmp(date as i32, ts2, ora)
        }
        "C02" => {
            let all = ops::all_ops();
            let op = &all[(sel as usize * 256 + sel2 as usize) % all.len()];
            if op.args.len() > 2 {
                return Ok(());
            }
            let raws = [a, b];
            let args: Vec<ops::Arg> = op
                .args
                .iter()
                .enumerate()
                .map(|(k, ak)| match ak {
                    ops::ArgKind::K(kind) => {
                        let (lo, hi) = strat::limits(*kind);
                        let mut x = fold(raws[k.min(1)], lo, hi);
                        if *kind == Kind::Ora {
                            x = x.div_euclid(US_PER_SEC) * US_PER_SEC;
                        }
                        ops::Arg::V(Val::new(*kind, x))
                    }
                    ops::ArgKind::I32 => ops::Arg::I32(raws[k.min(1)] as i32),
                    ops::ArgKind::I64 => ops::Arg::I64(raws[k.min(1)]),
                    ops::ArgKind::U32 => ops::Arg::U32(raws[k.min(1)] as u32),
                    ops::ArgKind::F64 => ops::Arg::F64(f),
                })
                .collect();
            c02::judge_op(op, &args).map(|_| ())
        }
        "C04" | "C06" | "C15" => {
            let kind = KINDS[sel as usize % 6];
            let (lo, hi) = strat::limits(kind);
            let mut raw = fold(a, lo, hi);
            if kind == Kind::Ora {
                raw = raw.div_euclid(US_PER_SEC) * US_PER_SEC;
            }
            let v = Val::new(kind, raw);
            let pics: &[&str] = match kind {
                Kind::Date => &["YYYY-MM-DD", "DAY, DD MONTH YYYY DDD D W WW Y YY YYY", "Dy Mon DD YYYY"],
                Kind::Time => &["HH24:MI:SS.FF6", "HH:MI:SS.FF9 AM", "hh12 mi ss ff3 p.m."],
                Kind::Ts => &["YYYY-MM-DD HH24:MI:SS.FF6", "DAY, DD MONTH YYYY HH:MI:SS.FF9 A.M. DDD D W WW", "YYYYMMDDHH24MISSFF6"],
                Kind::Ora => &["YYYY-MM-DD HH24:MI:SS", "Dy DD-MON-YYYY HH12:MI:SS PM DDD"],
                Kind::YM => &["YYYY-MM", "Y-MM", "YY MM"],
                Kind::DT => &["DD HH24:MI:SS.FF6", "DD HH24:MI:SS.FF9", "DD,HH24MISSFF3"],
            };
            match prop {
                "C04" => {
                    for p in pics {
                        c04::check_format(&v, p).map(|_| ())?;
                    }
                    Ok(())
                }
                "C06" => c06::check_roundtrip(kind, raw, pics[0]),
                _ => {
                    c15::check_roundtrip(kind, raw)?;
                    // the binary payload has the width of the type's raw count
                    let payload = if matches!(kind, Kind::Date | Kind::YM) { b as i32 as i128 } else { b as i128 };
                    c15::check_decode_bin(kind, payload).map(|_| ())
                }
            }
        }
        other => Err(format!("values target: no oracle set for property {other}")),
    }
}
