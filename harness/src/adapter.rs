//! Thin adapter between model values (`Val` = kind + raw count) and the library's types.
//! Every call into the library goes through `guarded` so that a panic is observed, not fatal.

use crate::engine::guarded;
use crate::model::text::{Kind, Val};
use sqldatetime::{Date, Error, Formatter, IntervalDT, IntervalYM, OracleDate, Time, Timestamp};
use std::fmt::Write;

#[derive(Clone, Debug, PartialEq)]
pub enum FmtOut {
    /// the picture did not compile
    BadPicture(Error),
    /// the picture compiled but formatting reported an error
    FormatErr,
    Text(String),
}

#[derive(Clone, Copy, Debug)]
pub enum LibVal {
    Date(Date),
    Time(Time),
    Ts(Timestamp),
    Ora(OracleDate),
    YM(IntervalYM),
    DT(IntervalDT),
}

impl LibVal {
    pub fn to_val(self) -> Val {
        match self {
            LibVal::Date(d) => Val::new(Kind::Date, d.days() as i128),
            LibVal::Time(t) => Val::new(Kind::Time, t.usecs() as i128),
            LibVal::Ts(t) => Val::new(Kind::Ts, t.usecs() as i128),
            LibVal::Ora(t) => Val::new(Kind::Ora, t.usecs() as i128),
            LibVal::YM(t) => Val::new(Kind::YM, t.months() as i128),
            LibVal::DT(t) => Val::new(Kind::DT, t.usecs() as i128),
        }
    }
}

/// Builds the library value through the *checked* constructor for the raw count.
pub fn to_lib(v: &Val) -> Result<LibVal, Error> {
    Ok(match v.kind {
        Kind::Date => {
            if v.raw < i32::MIN as i128 || v.raw > i32::MAX as i128 {
                return Err(Error::DateOutOfRange);
            }
            LibVal::Date(Date::try_from_days(v.raw as i32)?)
        }
        Kind::Time => LibVal::Time(Time::try_from_usecs(clamp64(v.raw))?),
        Kind::Ts => LibVal::Ts(Timestamp::try_from_usecs(clamp64(v.raw))?),
        Kind::Ora => LibVal::Ora(OracleDate::try_from_usecs(clamp64(v.raw))?),
        Kind::YM => {
            if v.raw < i32::MIN as i128 || v.raw > i32::MAX as i128 {
                return Err(Error::IntervalOutOfRange);
            }
            LibVal::YM(IntervalYM::try_from_months(v.raw as i32)?)
        }
        Kind::DT => LibVal::DT(IntervalDT::try_from_usecs(clamp64(v.raw))?),
    })
}

fn clamp64(x: i128) -> i64 {
    x.clamp(i64::MIN as i128, i64::MAX as i128) as i64
}

pub fn date(n: i32) -> Date {
    Date::try_from_days(n).expect("in-range day number")
}
pub fn ts(us: i64) -> Timestamp {
    Timestamp::try_from_usecs(us).expect("in-range timestamp")
}
pub fn time(us: i64) -> Time {
    Time::try_from_usecs(us).expect("in-range time")
}
pub fn ora(us: i64) -> OracleDate {
    OracleDate::try_from_usecs(us).expect("in-range oracle date")
}
pub fn ym(m: i32) -> IntervalYM {
    IntervalYM::try_from_months(m).expect("in-range ym interval")
}
pub fn dt(us: i64) -> IntervalDT {
    IntervalDT::try_from_usecs(us).expect("in-range dt interval")
}

fn fmt_with<T: std::fmt::Display>(r: Result<T, Error>) -> FmtOut {
    match r {
        Err(e) => FmtOut::BadPicture(e),
        Ok(lazy) => {
            let mut s = String::new();
            // write! – never to_string(), which panics inside std when Display reports an error
            match write!(&mut s, "{}", lazy) {
                Ok(()) => FmtOut::Text(s),
                Err(_) => FmtOut::FormatErr,
            }
        }
    }
}

/// `T::format(picture)` written into a `String` sink.
pub fn format_lazy(v: &LibVal, pic: &str) -> Result<FmtOut, String> {
    guarded(|| match v {
        LibVal::Date(x) => fmt_with(x.format(pic)),
        LibVal::Time(x) => fmt_with(x.format(pic)),
        LibVal::Ts(x) => fmt_with(x.format(pic)),
        LibVal::Ora(x) => fmt_with(x.format(pic)),
        LibVal::YM(x) => fmt_with(x.format(pic)),
        LibVal::DT(x) => fmt_with(x.format(pic)),
    })
}

fn fmt_spec<T: std::fmt::Display>(r: Result<T, Error>, out: &mut Vec<FmtOut>) {
    match r {
        Err(e) => out.push(FmtOut::BadPicture(e)),
        Ok(lazy) => {
            macro_rules! one {
                ($($spec:tt)*) => {{
                    let mut s = String::new();
                    out.push(match write!(&mut s, $($spec)*, lazy) {
                        Ok(()) => FmtOut::Text(s),
                        Err(_) => FmtOut::FormatErr,
                    });
                }};
            }
            one!("{:10}");
            one!("{:>30}");
            one!("{:<5}");
            one!("{:^300}");
            one!("{:.4}");
            one!("{:.4000}");
            one!("{:*>140.135}");
            one!("{:08}");
        }
    }
}

/// `T::format(picture)` written with several width / precision / alignment specs.
pub fn format_lazy_specs(v: &LibVal, pic: &str) -> Result<Vec<FmtOut>, String> {
    guarded(|| {
        let mut out = vec![];
        match v {
            LibVal::Date(x) => fmt_spec(x.format(pic), &mut out),
            LibVal::Time(x) => fmt_spec(x.format(pic), &mut out),
            LibVal::Ts(x) => fmt_spec(x.format(pic), &mut out),
            LibVal::Ora(x) => fmt_spec(x.format(pic), &mut out),
            LibVal::YM(x) => fmt_spec(x.format(pic), &mut out),
            LibVal::DT(x) => fmt_spec(x.format(pic), &mut out),
        }
        out
    })
}

/// `Formatter::try_new(picture)?.format(value, &mut String)`.
pub fn format_direct(v: &LibVal, pic: &str) -> Result<FmtOut, String> {
    guarded(|| {
        let f = match Formatter::try_new(pic) {
            Ok(f) => f,
            Err(e) => return FmtOut::BadPicture(e),
        };
        let mut s = String::new();
        let r = match v {
            LibVal::Date(x) => f.format(*x, &mut s),
            LibVal::Time(x) => f.format(*x, &mut s),
            LibVal::Ts(x) => f.format(*x, &mut s),
            LibVal::Ora(x) => f.format(*x, &mut s),
            LibVal::YM(x) => f.format(*x, &mut s),
            LibVal::DT(x) => f.format(*x, &mut s),
        };
        match r {
            Ok(()) => FmtOut::Text(s),
            Err(_) => FmtOut::FormatErr,
        }
    })
}

/// `T::parse(text, picture)`.
pub fn parse_type(kind: Kind, text: &str, pic: &str) -> Result<Result<Val, Error>, String> {
    guarded(|| match kind {
        Kind::Date => Date::parse(text, pic).map(|x| LibVal::Date(x).to_val()),
        Kind::Time => Time::parse(text, pic).map(|x| LibVal::Time(x).to_val()),
        Kind::Ts => Timestamp::parse(text, pic).map(|x| LibVal::Ts(x).to_val()),
        Kind::Ora => OracleDate::parse(text, pic).map(|x| LibVal::Ora(x).to_val()),
        Kind::YM => IntervalYM::parse(text, pic).map(|x| LibVal::YM(x).to_val()),
        Kind::DT => IntervalDT::parse(text, pic).map(|x| LibVal::DT(x).to_val()),
    })
}

/// `Formatter::try_new(picture)?.parse::<_, T>(text)`.
pub fn parse_direct(kind: Kind, text: &str, pic: &str) -> Result<Result<Val, Error>, String> {
    guarded(|| {
        let f = Formatter::try_new(pic)?;
        match kind {
            Kind::Date => f.parse::<_, Date>(text).map(|x| LibVal::Date(x).to_val()),
            Kind::Time => f.parse::<_, Time>(text).map(|x| LibVal::Time(x).to_val()),
            Kind::Ts => f.parse::<_, Timestamp>(text).map(|x| LibVal::Ts(x).to_val()),
            Kind::Ora => f.parse::<_, OracleDate>(text).map(|x| LibVal::Ora(x).to_val()),
            Kind::YM => f.parse::<_, IntervalYM>(text).map(|x| LibVal::YM(x).to_val()),
            Kind::DT => f.parse::<_, IntervalDT>(text).map(|x| LibVal::DT(x).to_val()),
        }
    })
}

/// Validity predicate of C02 on a raw count (model side).
pub fn in_range(v: &Val) -> bool {
    use crate::model::cal::*;
    match v.kind {
        Kind::Date => date_in_range(v.raw),
        Kind::Time => time_in_range(v.raw),
        Kind::Ts => ts_in_range(v.raw),
        Kind::Ora => ora_in_range(v.raw),
        Kind::YM => ym_in_range(v.raw),
        Kind::DT => dt_in_range(v.raw),
    }
}

pub fn clock_set(y: i32, mo: u32, d: u32, h: u32, mi: u32, s: u32, us: u32) {
    sqldatetime::verif_hooks::set_clock(Some((y, mo, d, h, mi, s, us)));
}
pub fn clock_clear() {
    sqldatetime::verif_hooks::set_clock(None);
}
pub fn clock_reads() -> u64 {
    sqldatetime::verif_hooks::clock_reads()
}

/// A text sink that, on every chunk it receives, formats another library value (a fixed time of
/// day) through both formatting routes before storing the chunk - what a logging writer that
/// stamps its output would do.
pub struct ReentrantSink {
    pub text: String,
    pub inner_ok: bool,
    pub chunks: u32,
}

impl std::fmt::Write for ReentrantSink {
    fn write_str(&mut self, s: &str) -> std::fmt::Result {
        self.chunks += 1;
        self.text.push_str(s);
        if self.chunks > 2 {
            return Ok(()); // the first two chunks call back into the library, the rest just store
        }
        let t = time(45_296_000_007); // 12:34:56.000007
        let mut a = String::new();
        let r1 = t.format("HH24:MI:SS.FF").map(|l| write!(&mut a, "{}", l));
        let mut b = String::new();
        let r2 = Formatter::try_new("HH24:MI:SS.FF").map(|f| f.format(t, &mut b));
        if !matches!(r1, Ok(Ok(()))) || !matches!(r2, Ok(Ok(()))) || a != "12:34:56.000007" || b != a {
            self.inner_ok = false;
        }
        Ok(())
    }
}

/// Formats `v` by `pic` into a `ReentrantSink` through both routes. Returns the two outer results
/// and whether every inner rendering was right.
pub fn format_reentrant(v: &LibVal, pic: &str) -> Result<(FmtOut, FmtOut, bool), String> {
    guarded(|| {
        let mut s1 = ReentrantSink { text: String::new(), inner_ok: true, chunks: 0 };
        let lazy = |r: Result<(), std::fmt::Error>, s: &ReentrantSink| if r.is_ok() { FmtOut::Text(s.text.clone()) } else { FmtOut::FormatErr };
        macro_rules! via_lazy {
            ($x:expr) => {
                match $x.format(pic) {
                    Err(e) => FmtOut::BadPicture(e),
                    Ok(l) => {
                        let r = write!(&mut s1, "{}", l);
                        lazy(r, &s1)
                    }
                }
            };
        }
        let a = match v {
            LibVal::Date(x) => via_lazy!(x),
            LibVal::Time(x) => via_lazy!(x),
            LibVal::Ts(x) => via_lazy!(x),
            LibVal::Ora(x) => via_lazy!(x),
            LibVal::YM(x) => via_lazy!(x),
            LibVal::DT(x) => via_lazy!(x),
        };
        let mut s2 = ReentrantSink { text: String::new(), inner_ok: true, chunks: 0 };
        let b = match Formatter::try_new(pic) {
            Err(e) => FmtOut::BadPicture(e),
            Ok(f) => {
                let r = match v {
                    LibVal::Date(x) => f.format(*x, &mut s2),
                    LibVal::Time(x) => f.format(*x, &mut s2),
                    LibVal::Ts(x) => f.format(*x, &mut s2),
                    LibVal::Ora(x) => f.format(*x, &mut s2),
                    LibVal::YM(x) => f.format(*x, &mut s2),
                    LibVal::DT(x) => f.format(*x, &mut s2),
                };
                if r.is_ok() {
                    FmtOut::Text(s2.text.clone())
                } else {
                    FmtOut::FormatErr
                }
            }
        };
        (a, b, s1.inner_ok && s2.inner_ok)
    })
}

thread_local! {
    static FORMATTERS: std::cell::RefCell<std::collections::HashMap<String, std::rc::Rc<Formatter>>> = std::cell::RefCell::new(std::collections::HashMap::new());
}

/// `Formatter::parse` through a formatter compiled once per thread and picture and kept for the
/// whole run (a long-lived formatter, as an application would hold it).
pub fn parse_long_lived(kind: Kind, text: &str, pic: &str) -> Result<Result<Val, Error>, String> {
    guarded(|| {
        let f = FORMATTERS.with(|m| {
            let mut m = m.borrow_mut();
            if m.len() > 4096 {
                m.clear();
            }
            match m.get(pic) {
                Some(f) => Ok(f.clone()),
                None => Formatter::try_new(pic).map(|f| {
                    let f = std::rc::Rc::new(f);
                    m.insert(pic.to_string(), f.clone());
                    f
                }),
            }
        })?;
        match kind {
            Kind::Date => f.parse::<_, Date>(text).map(|x| LibVal::Date(x).to_val()),
            Kind::Time => f.parse::<_, Time>(text).map(|x| LibVal::Time(x).to_val()),
            Kind::Ts => f.parse::<_, Timestamp>(text).map(|x| LibVal::Ts(x).to_val()),
            Kind::Ora => f.parse::<_, OracleDate>(text).map(|x| LibVal::Ora(x).to_val()),
            Kind::YM => f.parse::<_, IntervalYM>(text).map(|x| LibVal::YM(x).to_val()),
            Kind::DT => f.parse::<_, IntervalDT>(text).map(|x| LibVal::DT(x).to_val()),
        }
    })
}
