//! Value pools (boundary values + seeded random values), as raw counts. Every element is
//! inside the documented range of its type by construction (built from the walked calendar
//! and the limits in the property statements).

use crate::engine::SplitMix;
use crate::model::cal::*;
use crate::model::text::{Kind, Val};

pub fn ymd(y: i64, m: i64, d: i64) -> i128 {
    cal().lookup(y, m, d).unwrap_or_else(|| panic!("pool date {y}-{m}-{d} invalid")) as i128
}

pub fn hms(h: i128, mi: i128, s: i128, us: i128) -> i128 {
    h * US_PER_HOUR + mi * US_PER_MIN + s * US_PER_SEC + us
}

fn dedup(mut v: Vec<i128>) -> Vec<i128> {
    let mut seen = std::collections::HashSet::new();
    v.retain(|x| seen.insert(*x));
    v
}

/// Boundary dates (day numbers).
pub fn date_edges() -> Vec<i128> {
    let c = cal();
    let mut v: Vec<i128> = vec![];
    for k in 0..=7 {
        v.push(c.first as i128 + k);
        v.push(c.last as i128 - k);
    }
    v.extend_from_slice(&[-1, 0, 1, -365, 365]);
    v.push(ymd(1582, 10, 4));
    v.push(ymd(1582, 10, 15));
    for y in [1i64, 2, 50, 51, 100, 101, 400, 1600, 1900, 1901, 1950, 1951, 1999, 2000, 2001, 2050, 2051, 9900, 9901, 9949, 9950, 9951, 9998, 9999] {
        v.push(ymd(y, 1, 1));
        v.push(ymd(y, 12, 31));
        v.push(ymd(y, 6, 30));
        v.push(ymd(y, 7, 1));
    }
    v.push(ymd(1900, 2, 28));
    v.push(ymd(1900, 3, 1));
    v.push(ymd(2000, 2, 29));
    v.push(ymd(2000, 3, 1));
    v.push(ymd(1969, 12, 31));
    v.push(ymd(9999, 11, 15));
    v.push(ymd(9999, 11, 16));
    v.push(ymd(9999, 12, 15));
    v.push(ymd(9999, 12, 16));
    for d in 22..=31 {
        v.push(ymd(9999, 12, d));
    }
    for y in [2023i64, 2024] {
        for m in 1..=12 {
            v.push(ymd(y, m, 1));
            v.push(ymd(y, m, 15));
            v.push(ymd(y, m, 16));
            v.push(ymd(y, m, month_len(y as i32, m as u32) as i64));
        }
    }
    for d in 1..=9 {
        v.push(ymd(2021, 1, d));
    }
    dedup(v)
}

pub fn date_pool(seed: u64, nrandom: usize) -> Vec<i128> {
    let c = cal();
    let mut v = date_edges();
    let mut r = SplitMix(seed ^ 0xD47E);
    for k in 0..nrandom {
        if k % 2 == 0 {
            v.push(r.range_i128(c.first as i128, c.last as i128));
        } else {
            // uniform over centuries, so early years are not starved
            let y = 1 + r.below(9999) as i64;
            let m = 1 + r.below(12) as i64;
            let d = 1 + r.below(month_len(y as i32, m as u32) as u64) as i64;
            v.push(ymd(y, m, d));
        }
    }
    dedup(v)
}

/// Boundary times of day (microseconds).
pub fn time_edges() -> Vec<i128> {
    dedup(vec![
        0,
        1,
        999_999,
        hms(0, 0, 1, 0),
        hms(0, 0, 29, 999_999),
        hms(0, 0, 30, 0),
        hms(0, 0, 59, 999_999),
        hms(0, 29, 59, 999_999),
        hms(0, 30, 0, 0),
        hms(0, 59, 59, 999_999),
        hms(1, 0, 0, 0),
        hms(11, 59, 59, 999_999),
        hms(12, 0, 0, 0),
        hms(12, 0, 0, 1),
        hms(12, 59, 59, 0),
        hms(13, 0, 0, 0),
        hms(23, 29, 59, 999_999),
        hms(23, 30, 0, 0),
        hms(23, 59, 29, 999_999),
        hms(23, 59, 30, 0),
        hms(23, 59, 59, 0),
        hms(23, 59, 59, 499_999),
        hms(23, 59, 59, 500_000),
        hms(23, 59, 59, 999_999),
        hms(9, 8, 7, 654_321),
    ])
}

/// Times of day at 2^k (and multiples of 2^32) microseconds, 2^k milliseconds and 2^k seconds,
/// each with its +-1 us neighbours: where a narrowing cast of the time-of-day part gives out.
pub fn binary_times_of_day() -> Vec<i128> {
    let mut v = vec![];
    for unit in [1i128, 1000, US_PER_SEC] {
        for k in 0..=36u32 {
            let b = (1i128 << k) * unit;
            for d in [-1i128, 0, 1] {
                if time_in_range(b + d) {
                    v.push(b + d);
                }
            }
        }
    }
    for j in 1..=20i128 {
        for d in [-1i128, 0, 1] {
            let x = j * (1i128 << 32) + d;
            if time_in_range(x) {
                v.push(x);
            }
        }
    }
    for j in 1..=40i128 {
        let x = j * (1i128 << 31);
        if time_in_range(x) {
            v.push(x);
        }
    }
    dedup(v)
}

/// The same distances measured back from the next midnight (24:00 - x): where a narrowing cast
/// of "time left in the day" / of a negative remainder gives out.
pub fn mirrored_binary_times() -> Vec<i128> {
    dedup(binary_times_of_day().into_iter().filter(|x| *x > 0).map(|x| US_PER_DAY - x).filter(|x| time_in_range(*x)).collect())
}

/// Binary-boundary times of day (both directions) on a few boundary and interior dates, before
/// and after 1970.
pub fn ts_binary_time_instants() -> Vec<i128> {
    let c = cal();
    let mut times = binary_times_of_day();
    times.extend(mirrored_binary_times());
    let mut v = vec![];
    for d in [c.first as i128, c.first as i128 + 1, ymd(1582, 10, 15), ymd(1900, 3, 1), ymd(1950, 6, 15), -1, 0, 1, ymd(2000, 2, 29), ymd(2024, 12, 31), c.last as i128] {
        for t in &times {
            v.push(d * US_PER_DAY + t);
        }
    }
    dedup(v)
}

pub fn time_pool(seed: u64, nrandom: usize) -> Vec<i128> {
    let mut v = time_edges();
    v.extend(binary_times_of_day());
    v.extend(mirrored_binary_times());
    let mut r = SplitMix(seed ^ 0x71E);
    for _ in 0..nrandom {
        v.push(r.range_i128(0, US_PER_DAY - 1));
    }
    dedup(v)
}

/// Instants whose count in some derived unit (us, ms, s, min, h, day) sits at +-2^k: the places
/// where a narrower machine integer or a double's 53-bit mantissa would give out.
pub fn binary_boundary_instants() -> Vec<i128> {
    let mut v = vec![];
    for unit in [1i128, 1000, US_PER_SEC, US_PER_MIN, US_PER_HOUR, US_PER_DAY] {
        for k in 7..=62u32 {
            let base = (1i128 << k) * unit;
            if base > ts_max() + US_PER_DAY * 400 {
                break;
            }
            for sign in [1i128, -1] {
                for d in [-unit, -1, 0, 1, unit, unit / 2] {
                    let x = sign * base + d;
                    if ts_in_range(x) {
                        v.push(x);
                    }
                }
                // the instant one unit "before" the boundary counted in that unit, plus a fraction
                let x = sign * (base - unit) + sign * (unit / 3);
                if ts_in_range(x) {
                    v.push(x);
                }
            }
        }
    }
    dedup(v)
}

/// Days containing a binary-boundary instant (every second of these days is swept by C07/C10/C11).
pub fn binary_boundary_days(all: bool) -> Vec<i32> {
    let mut d: Vec<i32> = if all {
        binary_boundary_instants().into_iter().map(|x| x.div_euclid(US_PER_DAY) as i32).collect()
    } else {
        // the classic widths: i32 / u32 seconds, i32 milliseconds, i32 minutes, i16 / u16 days,
        // and the 53-bit mantissa of a double holding microseconds
        let mut v = vec![];
        for (unit, ks) in [(US_PER_SEC, vec![31u32, 32]), (1000, vec![31, 32]), (US_PER_MIN, vec![31]), (US_PER_DAY, vec![15, 16]), (1, vec![52, 53, 54])] {
            for k in ks {
                for sign in [1i128, -1] {
                    for x in [sign * (1i128 << k) * unit, sign * (1i128 << k) * unit - 1] {
                        if ts_in_range(x) {
                            v.push(x.div_euclid(US_PER_DAY) as i32);
                        }
                    }
                }
            }
        }
        v
    };
    d.sort();
    d.dedup();
    d
}

pub fn ts_pool(seed: u64, nrandom: usize) -> Vec<i128> {
    let mut v = binary_boundary_instants();
    let times = time_edges();
    for d in date_edges() {
        for t in &times {
            v.push(d * US_PER_DAY + t);
        }
    }
    let mut r = SplitMix(seed ^ 0x7157);
    for _ in 0..nrandom {
        v.push(r.range_i128(ts_min(), ts_max()));
    }
    dedup(v)
}

/// A smaller timestamp pool for quadratic cross products.
pub fn ts_pool_small(seed: u64, nrandom: usize) -> Vec<i128> {
    let c = cal();
    let mut v: Vec<i128> = binary_boundary_instants().into_iter().filter(|x| x % 7 == 0 || x.abs() % US_PER_SEC == 0).take(160).collect();
    let dates = [
        c.first as i128,
        c.first as i128 + 1,
        c.last as i128 - 1,
        c.last as i128,
        -1,
        0,
        1,
        ymd(2000, 2, 29),
        ymd(1900, 3, 1),
        ymd(9950, 1, 1),
        ymd(2021, 12, 31),
    ];
    let times = [0, 1, hms(11, 59, 59, 999_999), hms(12, 0, 0, 0), hms(23, 59, 59, 0), hms(23, 59, 59, 999_999)];
    for d in dates {
        for t in times {
            v.push(d * US_PER_DAY + t);
        }
    }
    let mut r = SplitMix(seed ^ 0x7158);
    for _ in 0..nrandom {
        v.push(r.range_i128(ts_min(), ts_max()));
    }
    dedup(v)
}

pub fn ora_pool(seed: u64, nrandom: usize) -> Vec<i128> {
    dedup(ts_pool(seed, nrandom).into_iter().map(|x| x.div_euclid(US_PER_SEC) * US_PER_SEC).collect())
}

pub fn ora_pool_small(seed: u64, nrandom: usize) -> Vec<i128> {
    dedup(ts_pool_small(seed, nrandom).into_iter().map(|x| x.div_euclid(US_PER_SEC) * US_PER_SEC).collect())
}

pub fn ym_edges() -> Vec<i128> {
    let mut v = vec![0];
    for x in [1i128, 2, 11, 12, 13, 23, 24, 25, 40, 41, 119, 120, 12 * 9998, 12 * 9998 + 11, 12 * 9999, 12 * 9999 + 1, 1_000_000, YM_MAX - 12, YM_MAX - 1, YM_MAX] {
        v.push(x);
        v.push(-x);
    }
    for k in 4..=31u32 {
        for unit in [1i128, 12] {
            let b = (1i128 << k) * unit;
            for d in [-12i128, -1, 0, 1, 11, 12] {
                if b + d <= YM_MAX {
                    v.push(b + d);
                    v.push(-(b + d));
                }
            }
        }
    }
    // the limit divided by small whole numbers, with neighbours
    for n in [2i128, 3, 4, 5, 6, 7, 8, 9, 10, 12, 16, 24, 60, 100, 1000] {
        for d in [-12i128, -1, 0, 1, 12] {
            v.push(YM_MAX / n + d);
            v.push(-(YM_MAX / n + d));
        }
    }
    // every small year count with a month (digit-count boundaries of the year field)
    for y in 0..=130i128 {
        v.push(y * 12 + (y % 12));
        v.push(-(y * 12 + (y % 12)));
    }
    for y in [999i128, 1000, 9999, 10_000, 99_999, 100_000, 999_999, 1_000_000, 9_999_999, 10_000_000, 99_999_999, 100_000_000] {
        v.push(y * 12 + 7);
        v.push(-(y * 12 + 7));
    }
    dedup(v)
}

pub fn ym_pool(seed: u64, nrandom: usize) -> Vec<i128> {
    let mut v = ym_edges();
    let mut r = SplitMix(seed ^ 0x4D);
    for k in 0..nrandom {
        let scale = [100i128, 20_000, 150_000, YM_MAX][k % 4];
        v.push(r.range_i128(-scale, scale));
    }
    dedup(v)
}

pub fn dt_edges() -> Vec<i128> {
    let span = ts_max() - ts_min();
    let mut v = vec![0];
    let mut xs: Vec<i128> = vec![
        1,
        999_999,
        US_PER_SEC,
        US_PER_SEC - 1,
        US_PER_SEC + 1,
        US_PER_MIN,
        US_PER_MIN - 1,
        US_PER_HOUR,
        US_PER_HOUR - 1,
        US_PER_DAY / 2,
        US_PER_DAY - 1,
        US_PER_DAY,
        US_PER_DAY + 1,
        2 * US_PER_DAY,
        7 * US_PER_DAY,
        31 * US_PER_DAY,
        32 * US_PER_DAY,
        99 * US_PER_DAY + hms(23, 59, 59, 999_999),
        100 * US_PER_DAY,
        365 * US_PER_DAY,
        span - 1,
        span,
        span + 1,
        span + US_PER_DAY,
        DT_MAX - US_PER_DAY,
        DT_MAX - 1,
        DT_MAX,
    ];
    // counts at 2^k in every derived unit (narrower integers, double mantissa)
    for unit in [1i128, 1000, US_PER_SEC, US_PER_MIN, US_PER_HOUR, US_PER_DAY] {
        for k in 7..=62u32 {
            let base = (1i128 << k) * unit;
            if base > DT_MAX {
                break;
            }
            for d in [-unit, -1, 0, 1, unit / 2, unit - 1, unit] {
                xs.push(base + d);
            }
        }
    }
    // the limit (and the timestamp span) divided by small whole numbers, with neighbours: the
    // operands whose product / sum with a small integer lands at the limit
    for n in [2i128, 3, 4, 5, 6, 7, 8, 9, 10, 12, 16, 24, 60, 100, 1000, 86_400] {
        for base in [DT_MAX / n, span / n] {
            for d in [-US_PER_SEC, -2, -1, 0, 1, 2, US_PER_SEC] {
                xs.push(base + d);
            }
        }
    }
    // every small whole-day count (two-digit / three-digit rendering, table boundaries)
    for d in 0..=130i128 {
        xs.push(d * US_PER_DAY);
        xs.push(d * US_PER_DAY + hms(3, 4, 5, 678_901));
    }
    let mut p = 10i128;
    while p < DT_MAX {
        xs.push(p);
        xs.push(p - 1);
        xs.push(p + 1);
        p *= 10;
    }
    for x in xs {
        if x <= DT_MAX {
            v.push(x);
            v.push(-x);
        }
    }
    dedup(v)
}

/// Day counts on a geometric ladder (ratio `r`) with the time of day at its extremes.
pub fn dt_ladder(r: f64) -> Vec<i128> {
    let mut v = vec![];
    let mut d = 131f64;
    while d < 100_000_000.0 {
        let days = d as i128;
        for t in [0i128, 1, hms(23, 59, 59, 0), hms(23, 59, 59, 999_999)] {
            v.push(days * US_PER_DAY + t);
            v.push(-(days * US_PER_DAY + t));
        }
        d *= r;
    }
    v
}

pub fn dt_pool(seed: u64, nrandom: usize) -> Vec<i128> {
    let mut v = dt_edges();
    v.extend(dt_ladder(if nrandom >= 400 { 1.05 } else { 1.35 }));
    let mut r = SplitMix(seed ^ 0xD7);
    let span = ts_max() - ts_min();
    for k in 0..nrandom {
        let scale = [3 * US_PER_DAY, 400 * US_PER_DAY, span, DT_MAX][k % 4];
        v.push(r.range_i128(-scale, scale));
    }
    dedup(v)
}

pub fn dt_pool_small(seed: u64, nrandom: usize) -> Vec<i128> {
    let span = ts_max() - ts_min();
    let mut v = vec![0];
    for x in [1, US_PER_SEC, US_PER_DAY - 1, US_PER_DAY, US_PER_DAY + 1, 366 * US_PER_DAY, span, span + 1, DT_MAX - 1, DT_MAX] {
        v.push(x);
        v.push(-x);
    }
    let mut r = SplitMix(seed ^ 0xD8);
    for k in 0..nrandom {
        let scale = [3 * US_PER_DAY, span, DT_MAX][k % 3];
        v.push(r.range_i128(-scale, scale));
    }
    dedup(v)
}

pub fn pool(kind: Kind, seed: u64, nrandom: usize) -> Vec<Val> {
    let raw = match kind {
        Kind::Date => date_pool(seed, nrandom),
        Kind::Time => time_pool(seed, nrandom),
        Kind::Ts => ts_pool(seed, nrandom),
        Kind::Ora => ora_pool(seed, nrandom),
        Kind::YM => ym_pool(seed, nrandom),
        Kind::DT => dt_pool(seed, nrandom),
    };
    raw.into_iter().map(|r| Val::new(kind, r)).collect()
}

/// Extreme and boundary i32 scalars (day offsets).
pub fn i32_scalars() -> Vec<i128> {
    let c = cal();
    let span = (c.last - c.first) as i128;
    let mut v = vec![0];
    for x in [1i128, 2, 7, 28, 29, 30, 31, 365, 366, 719_162, 719_163, 2_932_896, 2_932_897, span - 1, span, span + 1, i32::MAX as i128 - 1, i32::MAX as i128] {
        v.push(x);
        v.push(-x);
    }
    v.push(i32::MIN as i128);
    dedup(v)
}

/// f64 scalars by class (bit patterns kept exactly).
pub fn f64_scalars() -> Vec<f64> {
    let us = 1.0 / 86_400_000_000.0;
    let mut v = vec![
        0.0,
        -0.0,
        0.5,
        -0.5,
        1.0,
        -1.0,
        2.0,
        -2.0,
        3.0,
        10.0,
        -10.0,
        0.1,
        -0.1,
        1.5,
        -1.5,
        2.34,
        -2.34,
        1e-7,
        0.25,
        0.75,
        1.0 / 3.0,
        -1.0 / 3.0,
        us * 0.49,
        us * 0.5,
        us * 0.51,
        us,
        us * 1.5,
        -us * 0.5,
        -us,
        1e-300,
        -1e-300,
        f64::MIN_POSITIVE,
        f64::MIN_POSITIVE / 4.0,
        -f64::MIN_POSITIVE / 4.0,
        // the upper binades of the subnormals (a finite reciprocal still exists) and their mirror near the maximum
        f64::MIN_POSITIVE / 2.0,
        -f64::MIN_POSITIVE / 2.0,
        f64::MIN_POSITIVE * 0.75,
        f64::MIN_POSITIVE - 5e-324,
        2e-308,
        1e-308,
        f64::MAX / 2.0,
        f64::MAX / 4.0,
        -f64::MAX / 2.0,
        9007199254740992.0,
        -9007199254740992.0,
        9007199254740991.0,
        4503599627370496.5,
        1e9,
        -1e9,
        1e10,
        1e15,
        1e18,
        -1e18,
        1e19,
        1e300,
        -1e300,
        f64::MAX,
        f64::MIN,
        f64::INFINITY,
        f64::NEG_INFINITY,
        f64::NAN,
        2_932_896.0,
        -719_162.0,
        3_652_058.0,
        3_652_059.0,
        -3_652_059.0,
        100_000_000.0,
        100_000_001.0,
        178_000_000.0,
        2_136_000_000.0,
        2_136_000_001.0,
        0.999_999_999_999,
        1.000_000_000_001,
    ];
    for k in 1..=12 {
        v.push(k as f64);
        v.push(1.0 / (1u64 << k) as f64);
        v.push(k as f64 + 0.5);
    }
    v.extend(binary_boundary_day_offsets());
    v
}

/// Day offsets whose value in some derived unit (us, ms, s, min, h) sits at 2^k (+-1 unit), and
/// the whole / half day counts next to them: where an intermediate narrower integer overflows.
pub fn binary_boundary_day_offsets() -> Vec<f64> {
    let mut v = vec![];
    for unit in [1i128, 1000, US_PER_SEC, US_PER_MIN, US_PER_HOUR] {
        for k in 8..=62u32 {
            let us = (1i128 << k) * unit;
            if us > 4_000_000 * US_PER_DAY {
                break;
            }
            for d in [-unit, 0, unit] {
                let x = (us + d) as f64 / US_PER_DAY as f64;
                v.push(x);
                v.push(-x);
            }
            let days = (us / US_PER_DAY) as f64;
            for w in [days - 0.5, days, days + 0.5, days + 1.0] {
                if w > 0.0 {
                    v.push(w);
                    v.push(-w);
                }
            }
        }
    }
    v
}
