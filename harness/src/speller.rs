//! M6 – the text speller (C05, C06, C18). From (type, value, choices) it *constructs* a
//! picture and an input text that, by the lenient rules quoted in C05, denotes exactly one
//! value (or, with a perturbation, denotes none). It never parses anything.

use crate::gen::{self, CTok};
use crate::model::cal::*;
use crate::model::text::*;

/// Reads generated choices; index mapping is monotone so that shrinking the underlying
/// integers toward zero moves every choice toward its first (simplest) alternative.
pub struct Ch<'a> {
    v: &'a [u32],
    pos: usize,
}

impl<'a> Ch<'a> {
    pub fn new(v: &'a [u32]) -> Ch<'a> {
        Ch { v, pos: 0 }
    }
    pub fn raw(&mut self) -> u32 {
        let x = self.v.get(self.pos).copied().unwrap_or(0);
        self.pos += 1;
        x
    }
    pub fn pick(&mut self, n: usize) -> usize {
        ((self.raw() as u64 * n as u64) >> 32) as usize
    }
    /// true with probability num/den; false is the "simple" outcome
    pub fn flag(&mut self, num: u32, den: u32) -> bool {
        let x = self.raw();
        (x as u64 * den as u64) >> 32 >= (den - num) as u64
    }
}

#[derive(Clone, Debug, PartialEq)]
pub struct Built {
    pub kind: Kind,
    pub picture: String,
    pub text: String,
    /// the value the text denotes; None = the text denotes no value (an error is required)
    pub expect: Option<i128>,
    /// leniencies / perturbation used (for the class histogram)
    pub tags: Vec<&'static str>,
    pub negative: bool,
}

const STYLES: [Style; 3] = [Style::Upper, Style::Capital, Style::Lower];
const SEPS: [&str; 13] = ["-", " ", "/", ":", "", ".", ",", ";", "\\", "T", "  ", " - ", ", "];

fn sep_tokens(s: &str) -> Vec<CTok> {
    tokenize(s).expect("separator tokenizes").into_iter().map(|t| (t, 0)).collect()
}

fn random_case(s: &str, ch: &mut Ch) -> String {
    let mode = ch.pick(4);
    match mode {
        0 => s.to_string(),
        1 => s.to_ascii_uppercase(),
        2 => s.to_ascii_lowercase(),
        _ => {
            let bits = ch.raw();
            s.bytes().enumerate().map(|(i, c)| if bits >> (i % 32) & 1 == 1 { c.to_ascii_uppercase() as char } else { c.to_ascii_lowercase() as char }).collect()
        }
    }
}

#[derive(Clone, Copy, Debug, PartialEq, Eq)]
pub enum Perturb {
    None,
    Month0,
    Month13,
    Day0,
    Day32,
    DayPastMonthEnd,
    Hour24,
    Hour12Zero,
    Hour12Thirteen,
    Minute60,
    Second60,
    YearZero,
    MinusSign,
    DoyZero,
    DoyPastYearEnd,
    Doy367,
    WeekdayDigitBad,
    WeekdayWrong,
    DoyDisagrees,
    Duplicate,
    OutputOnly,
    Inapplicable,
    Leftover,
    IntervalFieldRange,
    IntervalPastLimit,
    /// one letter of a name / meridian replaced by a non-ASCII look-alike (long s, Kelvin sign,
    /// dotless i, full-width letter): must not be folded onto the ASCII letter
    Lookalike,
    /// one character of a name / meridian (letters and the dots of A.M. / P.M.) with a single
    /// bit flipped (7 bits x every position), unless that gives the other letter case or
    /// another valid name: such text denotes nothing
    BitFlip,
}

pub const PERTURBS: [Perturb; 26] = [
    Perturb::BitFlip,
    Perturb::Lookalike,
    Perturb::Leftover,
    Perturb::Month0,
    Perturb::Month13,
    Perturb::Day0,
    Perturb::Day32,
    Perturb::DayPastMonthEnd,
    Perturb::Hour24,
    Perturb::Hour12Zero,
    Perturb::Hour12Thirteen,
    Perturb::Minute60,
    Perturb::Second60,
    Perturb::YearZero,
    Perturb::MinusSign,
    Perturb::DoyZero,
    Perturb::DoyPastYearEnd,
    Perturb::Doy367,
    Perturb::WeekdayDigitBad,
    Perturb::WeekdayWrong,
    Perturb::DoyDisagrees,
    Perturb::Duplicate,
    Perturb::OutputOnly,
    Perturb::Inapplicable,
    Perturb::IntervalFieldRange,
    Perturb::IntervalPastLimit,
];

pub fn perturb_name(p: Perturb) -> &'static str {
    match p {
        Perturb::None => "positive",
        Perturb::Month0 => "neg-month-0",
        Perturb::Month13 => "neg-month-13",
        Perturb::Day0 => "neg-day-0",
        Perturb::Day32 => "neg-day-32",
        Perturb::DayPastMonthEnd => "neg-day-past-month-end",
        Perturb::Hour24 => "neg-hour-24",
        Perturb::Hour12Zero => "neg-hour12-0",
        Perturb::Hour12Thirteen => "neg-hour12-13",
        Perturb::Minute60 => "neg-minute-60",
        Perturb::Second60 => "neg-second-60",
        Perturb::YearZero => "neg-year-0",
        Perturb::MinusSign => "neg-minus-sign-on-date-field",
        Perturb::DoyZero => "neg-doy-0",
        Perturb::DoyPastYearEnd => "neg-doy-past-year-end",
        Perturb::Doy367 => "neg-doy-367",
        Perturb::WeekdayDigitBad => "neg-weekday-digit-0-8-9",
        Perturb::WeekdayWrong => "neg-weekday-disagrees",
        Perturb::DoyDisagrees => "neg-doy-disagrees",
        Perturb::Duplicate => "neg-duplicate-code",
        Perturb::OutputOnly => "neg-output-only-code",
        Perturb::Inapplicable => "neg-inapplicable-code",
        Perturb::Leftover => "neg-leftover-text",
        Perturb::IntervalFieldRange => "neg-interval-field-out-of-range",
        Perturb::IntervalPastLimit => "neg-interval-past-limit",
        Perturb::Lookalike => "neg-unicode-lookalike-letter",
        Perturb::BitFlip => "neg-one-bit-flipped-in-a-name",
    }
}

struct Parts {
    year: i64,
    month: u32,
    day: u32,
    doy: u32,
    wd: u32,
    hour: u32,
    min: u32,
    sec: u32,
}

fn num(ch: &mut Ch, v: u64, width: usize, allow_plus: bool, tags: &mut Vec<&'static str>) -> (String, bool) {
    // (text, unpadded)
    let padded = format!("{:0w$}", v, w = width);
    let unp = v.to_string();
    let use_unpadded = ch.flag(1, 3) && unp.len() < padded.len();
    let plus = allow_plus && ch.flag(1, 6);
    let mut s = String::new();
    if plus {
        s.push('+');
        tags.push("leading-plus");
    }
    if use_unpadded {
        tags.push("unpadded-number");
        s.push_str(&unp);
    } else {
        s.push_str(&padded);
    }
    (s, use_unpadded)
}

/// Builds a case. `neg` = 0 for a positive case, otherwise selects a perturbation.
pub fn build(kind: Kind, raw: i128, choices: &[u32], neg: u32) -> Built {
    let mut ch = Ch::new(choices);
    let mut tags: Vec<&'static str> = vec![];
    let v = Val::new(kind, raw);
    let f = v.fields();
    let want_perturb = if neg == 0 { Perturb::None } else { PERTURBS[(neg as usize - 1) % PERTURBS.len()] };

    if kind.is_interval() {
        return build_interval(kind, raw, &f, &mut ch, want_perturb);
    }

    let has_date = kind.has_date();
    let has_time = kind != Kind::Date;
    let p = Parts { year: f.year, month: f.month, day: f.day, doy: f.doy, wd: f.wd, hour: f.hour, min: f.min, sec: f.sec };

    // ---- choose the picture's value tokens -------------------------------------------
    let mut date_toks: Vec<Tok> = vec![];
    if has_date {
        let variant = ch.pick(4); // 0,3: Y M D   1: Y DDD   2: Y M D DDD
        let month_tok = match ch.pick(3) {
            0 => Tok::MM,
            1 => Tok::Mon(STYLES[ch.pick(3)]),
            _ => Tok::Month(STYLES[ch.pick(3)]),
        };
        date_toks.push(Tok::Year(4));
        match variant {
            1 => date_toks.push(Tok::DDD),
            2 => {
                date_toks.push(month_tok);
                date_toks.push(Tok::DD);
                date_toks.push(Tok::DDD);
            }
            _ => {
                date_toks.push(month_tok);
                date_toks.push(Tok::DD);
            }
        }
        match ch.pick(5) {
            1 => date_toks.push(Tok::Day(STYLES[ch.pick(3)])),
            2 => date_toks.push(Tok::Dy(STYLES[ch.pick(3)])),
            3 => date_toks.push(Tok::D),
            _ => {}
        }
        shuffle(&mut date_toks, &mut ch);
    }
    let mut time_toks: Vec<Tok> = vec![];
    let mut have_mi = false;
    let mut have_ss = false;
    let mut have_ff: Option<Option<u8>> = None;
    let mut clock12 = false;
    if has_time {
        clock12 = ch.flag(1, 3);
        if clock12 {
            time_toks.push(Tok::HH12);
            let dotted = ch.flag(1, 3);
            let case = [MerCase::Upper, MerCase::Lower, MerCase::Mixed][ch.pick(3)];
            time_toks.push(Tok::Mer { dotted, case });
        } else {
            time_toks.push(Tok::HH24);
        }
        have_mi = !ch.flag(1, 8);
        have_ss = have_mi && !ch.flag(1, 8);
        if have_mi {
            time_toks.push(Tok::MI);
        }
        if have_ss {
            time_toks.push(Tok::SS);
        }
        if kind != Kind::Ora && have_ss && ch.flag(2, 3) {
            let p = match ch.pick(4) {
                0 => None,
                1 => Some(6),
                2 => Some(9),
                _ => Some(1 + ch.pick(9) as u8),
            };
            have_ff = Some(p);
            time_toks.push(Tok::FF(p));
        }
        if ch.flag(1, 4) {
            shuffle(&mut time_toks, &mut ch);
        }
    }
    let mut value_toks: Vec<Tok> = vec![];
    match (has_date, has_time) {
        (true, true) => match ch.pick(4) {
            1 => {
                value_toks.extend(time_toks.clone());
                value_toks.extend(date_toks.clone());
            }
            2 => {
                value_toks.extend(date_toks.clone());
                value_toks.extend(time_toks.clone());
                shuffle(&mut value_toks, &mut ch);
            }
            _ => {
                value_toks.extend(date_toks.clone());
                value_toks.extend(time_toks.clone());
            }
        },
        (true, false) => value_toks = date_toks.clone(),
        _ => value_toks = time_toks.clone(),
    }

    // ---- the fraction digits are chosen on their own; the value follows from them ------
    let mut frac_digits = String::new();
    let mut usec_from_frac: i128 = 0;
    if let Some(p) = have_ff {
        let maxlen = p.unwrap_or(9) as usize;
        let len = 1 + ch.pick(maxlen);
        let style = ch.pick(4);
        for k in 0..len {
            let d = match style {
                0 => ((f.usec as u64 / 10u64.pow(5u32.saturating_sub(k as u32).min(5))) % 10) as u8 * (k < 6) as u8,
                1 => 9,
                2 => {
                    if k + 1 == len {
                        5
                    } else {
                        9
                    }
                }
                _ => ch.pick(10) as u8,
            };
            frac_digits.push((b'0' + d) as char);
        }
        // value of 0.digits in microseconds, rounded half up
        let n: i128 = frac_digits.parse::<i128>().unwrap();
        if len <= 6 {
            usec_from_frac = n * 10i128.pow(6 - len as u32);
        } else {
            let scale = 10i128.pow(len as u32 - 6);
            usec_from_frac = (n + scale / 2) / scale;
            tags.push("fraction-beyond-six-digits");
            if usec_from_frac == 1_000_000 {
                tags.push("fraction-carry-into-seconds");
            }
        }
        if len < maxlen.min(6) {
            tags.push("short-fraction");
        }
    }

    // ---- assemble tokens with separators ------------------------------------------------
    let mut ctoks: Vec<CTok> = vec![];
    for (k, t) in value_toks.iter().enumerate() {
        if k > 0 {
            let mut s = SEPS[ch.pick(SEPS.len())];
            let prev = &value_toks[k - 1];
            let alpha = |t: &Tok| matches!(t, Tok::Mon(_) | Tok::Month(_) | Tok::Day(_) | Tok::Dy(_) | Tok::Mer { .. } | Tok::MM);
            if s.is_empty() || s == "T" {
                // two alphabetic texts, or a fraction before digits, must be delimited
                if (alpha(prev) && alpha(t)) || matches!(prev, Tok::FF(_)) {
                    s = " ";
                }
            }
            // a separator made of tolerated punctuation only could be taken for a sign: keep '-'
            // away from numbers that may carry an explicit sign in a perturbed text
            ctoks.extend(sep_tokens(s));
        }
        ctoks.push((t.clone(), ch.raw()));
    }
    let mut ctoks = gen::repair(ctoks, b'/');
    // leading / trailing decoration
    if ch.flag(1, 10) {
        ctoks.insert(0, (Tok::Blank(1 + ch.pick(2)), 0));
    }
    if ch.flag(1, 10) {
        ctoks.push((Tok::Blank(1), 0));
    }
    // leave room for the two tokens a picture-level perturbation appends (limit: 36 tokens)
    let mut ctoks = gen::fit(gen::repair(ctoks, b'/'), MAX_TOKENS - 3);

    // ---- picture-level perturbations ----------------------------------------------------
    let mut perturb = want_perturb;
    let has = |ts: &Vec<CTok>, pred: &dyn Fn(&Tok) -> bool| ts.iter().any(|(t, _)| pred(t));
    let mut dup_text: Option<String> = None;
    match perturb {
        Perturb::Duplicate => {
            // repeat one kind of code at the end of the picture, with consistent text
            let cands: Vec<&CTok> = ctoks.iter().filter(|(t, _)| t.is_value_bearing()).collect();
            let (t, _) = cands[ch.pick(cands.len())].clone();
            let (dup, txt): (Tok, String) = match t {
                Tok::Year(_) => (Tok::Year(4), format!("{:04}", p.year)),
                Tok::MM | Tok::Mon(_) | Tok::Month(_) => {
                    if ch.flag(1, 2) {
                        (Tok::MM, format!("{:02}", p.month))
                    } else {
                        (Tok::Mon(Style::Upper), MONTH_NAMES[p.month as usize - 1][..3].to_string())
                    }
                }
                Tok::DD => (Tok::DD, format!("{:02}", p.day)),
                Tok::DDD => (Tok::DDD, format!("{:03}", p.doy)),
                Tok::D | Tok::Day(_) | Tok::Dy(_) => {
                    if ch.flag(1, 2) {
                        (Tok::D, p.wd.to_string())
                    } else {
                        (Tok::Day(Style::Upper), DAY_NAMES[p.wd as usize - 1].to_string())
                    }
                }
                Tok::HH24 | Tok::HH12 => {
                    if clock12 {
                        (Tok::HH12, format!("{:02}", hour12(p.hour)))
                    } else {
                        (Tok::HH24, format!("{:02}", p.hour))
                    }
                }
                Tok::MI => (Tok::MI, format!("{:02}", p.min)),
                Tok::SS => (Tok::SS, format!("{:02}", p.sec)),
                Tok::FF(_) => (Tok::FF(None), "0".to_string()),
                Tok::Mer { dotted, .. } => (Tok::Mer { dotted, case: MerCase::Upper }, mer_text(p.hour, dotted)),
                other => (other, String::new()),
            };
            ctoks.push((Tok::Blank(1), 0));
            ctoks.push((dup, 0));
            dup_text = Some(format!(" {txt}"));
        }
        Perturb::OutputOnly => {
            let w = if ch.flag(1, 2) { Tok::W } else { Tok::WW };
            let txt = if w == Tok::W { " 1" } else { " 01" };
            ctoks.push((Tok::Blank(1), 0));
            ctoks.push((w, 0));
            dup_text = Some(txt.to_string());
        }
        Perturb::Inapplicable => {
            let (t, txt): (Tok, &str) = match kind {
                Kind::Date => [(Tok::HH24, "00"), (Tok::MI, "00"), (Tok::SS, "00"), (Tok::FF(None), "0"), (Tok::Mer { dotted: false, case: MerCase::Upper }, "AM"), (Tok::HH12, "12")][ch.pick(6)].clone(),
                Kind::Time => [(Tok::Year(4), "2000"), (Tok::MM, "01"), (Tok::DD, "01"), (Tok::DDD, "001"), (Tok::D, "1"), (Tok::Day(Style::Upper), "MONDAY"), (Tok::Mon(Style::Upper), "JAN")][ch.pick(7)].clone(),
                Kind::Ora => (Tok::FF(None), "0"),
                _ => (Tok::W, "1"), // timestamps accept every input code: fall back to an output-only one
            };
            ctoks.push((Tok::Blank(1), 0));
            ctoks.push((t, 0));
            dup_text = Some(format!(" {txt}"));
        }
        _ => {}
    }
    // is the wanted field perturbation applicable to this picture? otherwise: leftover text
    let applicable_p = match perturb {
        Perturb::None | Perturb::Duplicate | Perturb::OutputOnly | Perturb::Inapplicable | Perturb::Leftover => true,
        Perturb::Month0 | Perturb::Month13 => has(&ctoks, &|t| *t == Tok::MM),
        Perturb::Day0 | Perturb::Day32 | Perturb::DayPastMonthEnd => has(&ctoks, &|t| *t == Tok::DD) && !(perturb == Perturb::DayPastMonthEnd && p.month == 0),
        Perturb::Hour24 => has(&ctoks, &|t| *t == Tok::HH24),
        Perturb::Hour12Zero | Perturb::Hour12Thirteen => has(&ctoks, &|t| *t == Tok::HH12),
        Perturb::Minute60 => has(&ctoks, &|t| *t == Tok::MI),
        Perturb::Second60 => has(&ctoks, &|t| *t == Tok::SS),
        Perturb::YearZero => has_date,
        Perturb::MinusSign => true,
        Perturb::DoyZero | Perturb::DoyPastYearEnd | Perturb::Doy367 => has(&ctoks, &|t| *t == Tok::DDD),
        Perturb::WeekdayDigitBad => has(&ctoks, &|t| *t == Tok::D),
        Perturb::WeekdayWrong => has(&ctoks, &|t| matches!(t, Tok::D | Tok::Day(_) | Tok::Dy(_))),
        Perturb::DoyDisagrees => has(&ctoks, &|t| *t == Tok::DDD) && has(&ctoks, &|t| *t == Tok::DD),
        Perturb::IntervalFieldRange | Perturb::IntervalPastLimit => false,
        Perturb::Lookalike | Perturb::BitFlip => has(&ctoks, &|t| matches!(t, Tok::Mon(_) | Tok::Month(_) | Tok::Day(_) | Tok::Dy(_) | Tok::Mer { .. })),
    };
    if !applicable_p {
        perturb = Perturb::Leftover;
    }
    // MinusSign: the first numeric field gets a '-'
    let mut minus_target: Option<usize> = None;
    if perturb == Perturb::MinusSign {
        let idxs: Vec<usize> = ctoks.iter().enumerate().filter(|(_, (t, _))| matches!(t, Tok::Year(_) | Tok::MM | Tok::DD | Tok::DDD | Tok::HH24 | Tok::HH12 | Tok::MI | Tok::SS | Tok::FF(_))).map(|(i, _)| i).collect();
        if idxs.is_empty() {
            perturb = Perturb::Leftover;
        } else {
            minus_target = Some(idxs[ch.pick(idxs.len())]);
        }
    }

    // ---- truncation (omitted trailing time fields); only for positive cases ---------------
    let tolerant = |t: &Tok| matches!(t, Tok::Blank(_) | Tok::Punct(b'-') | Tok::Punct(b':') | Tok::Punct(b'.') | Tok::HH24 | Tok::HH12 | Tok::MI | Tok::SS | Tok::FF(_) | Tok::Mer { .. });
    let mut cut: Option<usize> = None; // tokens at index >= cut are not spelled
    // a duplicated time-field code is an error even when the text ends before it is reached:
    // such a negative case may be truncated like a positive one (the duplicate gets no text)
    let dup_is_tolerant = perturb == Perturb::Duplicate && dup_text.is_some() && ctoks.last().map(|t| tolerant(&t.0)).unwrap_or(false);
    let truncate_dup = dup_is_tolerant && ch.flag(1, 2);
    if truncate_dup {
        dup_text = None;
        tags.push("duplicate-code-with-text-ending-early");
    }
    if (perturb == Perturb::None || truncate_dup) && has_time && (truncate_dup || ch.flag(1, 4)) {
        // smallest index from which everything is tolerant
        let mut first = ctoks.len();
        while first > 0 && tolerant(&ctoks[first - 1].0) {
            first -= 1;
        }
        if first < ctoks.len() {
            let c = first + ch.pick(ctoks.len() - first + 1);
            if c < ctoks.len() {
                // rule: a spelled 12-hour field needs its meridian spelled too (and a spelled
                // meridian with an omitted hour means 12 o'clock)
                let hh12_at = ctoks.iter().position(|(t, _)| *t == Tok::HH12);
                let mer_at = ctoks.iter().position(|(t, _)| matches!(t, Tok::Mer { .. }));
                let ok = match (hh12_at, mer_at) {
                    (Some(h), Some(m)) => !(h < c && m >= c),
                    _ => true,
                };
                if ok {
                    cut = Some(c);
                    tags.push("omitted-trailing-fields");
                }
            } else if truncate_dup {
                // everything is spelled except the duplicate (which has no text)
                cut = Some(ctoks.len() - 1);
            }
        }
    }

    // ---- expected value ---------------------------------------------------------------------
    let spelled = |tok_pred: &dyn Fn(&Tok) -> bool| -> bool { ctoks.iter().enumerate().any(|(i, (t, _))| tok_pred(t) && cut.map(|c| i < c).unwrap_or(true)) };
    let mut hour = 0u32;
    if has_time {
        let hh24_sp = spelled(&|t| *t == Tok::HH24);
        let hh12_sp = spelled(&|t| *t == Tok::HH12);
        let mer_sp = spelled(&|t| matches!(t, Tok::Mer { .. }));
        if clock12 {
            hour = match (hh12_sp, mer_sp) {
                (true, true) => p.hour,
                (false, true) => {
                    if p.hour < 12 {
                        0
                    } else {
                        12
                    }
                } // 12 AM / 12 PM
                (false, false) => 12,
                (true, false) => p.hour, // not generated (see above)
            };
        } else {
            hour = if hh24_sp { p.hour } else { 0 };
        }
    }
    let min = if have_mi && spelled(&|t| *t == Tok::MI) { p.min } else { 0 };
    let sec = if have_ss && spelled(&|t| *t == Tok::SS) { p.sec } else { 0 };
    let frac = if have_ff.is_some() && spelled(&|t| matches!(t, Tok::FF(_))) { usec_from_frac } else { 0 };
    let tod = hour as i128 * US_PER_HOUR + min as i128 * US_PER_MIN + sec as i128 * US_PER_SEC + frac;
    let date_n = if has_date { cal().lookup(p.year, p.month as i64, p.day as i64).expect("valid date") as i128 } else { 0 };
    let total = match kind {
        Kind::Date => date_n,
        Kind::Time => tod,
        _ => date_n * US_PER_DAY + tod,
    };
    let in_range = match kind {
        Kind::Date => true,
        Kind::Time => time_in_range(total),
        Kind::Ts => ts_in_range(total),
        _ => ora_in_range(total),
    };
    if !in_range {
        tags.push("carry-leaves-the-range");
    }

    // ---- spell --------------------------------------------------------------------------------
    let mut text = String::new();
    let n_tok = cut.unwrap_or(ctoks.len());
    let mut last_value_full_width = false;
    let mut lookalike_done = false;
    // A day outside its month together with redundant fields: half of the time the day-of-year
    // and the weekday are spelled for the *overflowed* pseudo-date (days before the month + the
    // bad day), so that every redundant field "agrees" with the impossible day; the text still
    // denotes no date.
    let bad_day: Option<u32> = match perturb {
        Perturb::Day0 => Some(0),
        Perturb::Day32 => Some([32u32, 99, 40][ch.pick(3)]),
        Perturb::DayPastMonthEnd if has_date && p.month >= 1 => Some(month_len(p.year as i32, p.month) + 1),
        _ => None,
    };
    let (mut doy_spell, mut wd_spell) = (p.doy, p.wd);
    if let Some(bd) = bad_day {
        if has_date && ch.flag(1, 2) {
            let shift = bd as i64 - p.day as i64;
            let d2 = p.doy as i64 + shift;
            if (1..=999).contains(&d2) {
                doy_spell = d2 as u32;
                wd_spell = ((p.wd as i64 - 1 + shift).rem_euclid(7) + 1) as u32;
                tags.push("redundant-fields-follow-the-impossible-day");
            }
        }
    }
    for i in 0..n_tok {
        let (t, _) = &ctoks[i];
        let is_dup_tail = dup_text.is_some() && i + 2 >= ctoks.len();
        if is_dup_tail {
            continue; // spelled from dup_text below
        }
        // next spelled text starts with a digit? (then numbers must be padded)
        let next_is_digit = (i + 1..n_tok).find(|&j| !matches!(ctoks[j].0, Tok::Blank(0))).map(|j| starts_with_digit(&ctoks[j].0)).unwrap_or(false);
        if t.is_value_bearing() && ch.flag(1, 8) {
            let n = if ch.flag(1, 24) {
                tags.push("long-blank-run-in-text");
                250 + ch.pick(60)
            } else {
                1 + ch.pick(3)
            };
            text.push_str(&" ".repeat(n));
            tags.push("extra-blanks");
        }
        let minus = minus_target == Some(i);
        let mut piece = String::new();
        let numeric = |v: u64, width: usize, plus_ok: bool, ch: &mut Ch, tags: &mut Vec<&'static str>, piece: &mut String, full: &mut bool| {
            if minus {
                piece.push('-');
                // a zero keeps its minus sign half of the time ("-0", "-00": still no valid field)
                let vv = if v == 0 && ch.flag(1, 2) { 0 } else { v.max(1) };
                if vv == 0 {
                    tags.push("minus-zero");
                }
                piece.push_str(&format!("{:0w$}", vv, w = if vv == 0 && ch.flag(1, 2) { 1 } else { width }));
                *full = true;
                return;
            }
            let mut scratch = vec![];
            let (s, unp) = num(ch, v, width, plus_ok, &mut scratch);
            if unp && next_is_digit {
                let plus = s.starts_with('+');
                *piece = format!("{}{:0w$}", if plus { "+" } else { "" }, v, w = width);
                if plus {
                    tags.push("leading-plus");
                }
            } else {
                tags.extend(scratch);
                *piece = s;
            }
            *full = !unp || next_is_digit;
        };
        match t {
            Tok::Blank(n) => piece.push_str(&" ".repeat(*n)),
            Tok::Punct(c) => piece.push(*c as char),
            Tok::T => piece.push('T'),
            Tok::Year(_) => {
                let y = if perturb == Perturb::YearZero { 0 } else { p.year as u64 };
                numeric(y, 4, true, &mut ch, &mut tags, &mut piece, &mut last_value_full_width);
            }
            Tok::MM => {
                let as_name = perturb == Perturb::None && !minus && ch.flag(1, 4);
                if perturb == Perturb::Month0 {
                    piece.push_str(if next_is_digit { "00" } else { ["0", "00"][ch.pick(2)] });
                } else if perturb == Perturb::Month13 {
                    piece.push_str(["13", "99", "20"][ch.pick(3)]);
                } else if as_name {
                    let name = MONTH_NAMES[p.month as usize - 1];
                    let s = if ch.flag(1, 2) { &name[..3] } else { name };
                    piece.push_str(&random_case(s, &mut ch));
                    tags.push("month-name-for-month-number");
                    last_value_full_width = true;
                } else {
                    numeric(p.month as u64, 2, true, &mut ch, &mut tags, &mut piece, &mut last_value_full_width);
                }
            }
            Tok::Mon(_) => {
                piece.push_str(&random_case(&MONTH_NAMES[p.month as usize - 1][..3], &mut ch));
                tags.push("name-field");
            }
            Tok::Month(_) => {
                piece.push_str(&random_case(MONTH_NAMES[p.month as usize - 1], &mut ch));
                tags.push("name-field");
            }
            Tok::DD => match perturb {
                Perturb::Day0 => piece.push_str(if next_is_digit { "00" } else { ["0", "00"][ch.pick(2)] }),
                Perturb::Day32 | Perturb::DayPastMonthEnd => piece.push_str(&format!("{:02}", bad_day.unwrap_or(32))),
                _ => numeric(p.day as u64, 2, true, &mut ch, &mut tags, &mut piece, &mut last_value_full_width),
            },
            Tok::DDD => match perturb {
                Perturb::DoyZero => piece.push_str(if next_is_digit { "000" } else { ["0", "000"][ch.pick(2)] }),
                Perturb::DoyPastYearEnd => piece.push_str(&format!("{:03}", year_len(p.year as i32) + 1)),
                Perturb::Doy367 => piece.push_str(["367", "999", "400"][ch.pick(3)]),
                Perturb::DoyDisagrees => {
                    let d = if p.doy > 1 { p.doy - 1 } else { p.doy + 1 };
                    piece.push_str(&format!("{d:03}"));
                }
                _ => numeric(doy_spell as u64, 3, true, &mut ch, &mut tags, &mut piece, &mut last_value_full_width),
            },
            Tok::D => {
                let d = match perturb {
                    Perturb::WeekdayDigitBad => [0u32, 8, 9][ch.pick(3)],
                    Perturb::WeekdayWrong => p.wd % 7 + 1,
                    _ => wd_spell,
                };
                piece.push_str(&d.to_string());
                tags.push("weekday-field");
            }
            Tok::Day(_) | Tok::Dy(_) => {
                let w = if perturb == Perturb::WeekdayWrong { (p.wd as usize + ch.pick(6)) % 7 + 1 } else { wd_spell as usize };
                let w = if perturb == Perturb::WeekdayWrong && w == p.wd as usize { p.wd as usize % 7 + 1 } else { w };
                let name = DAY_NAMES[w - 1];
                let s = if matches!(t, Tok::Dy(_)) { &name[..3] } else { name };
                piece.push_str(&random_case(s, &mut ch));
                tags.push("weekday-field");
            }
            Tok::HH24 => {
                if perturb == Perturb::Hour24 {
                    piece.push_str(["24", "99", "25"][ch.pick(3)]);
                } else {
                    numeric(p.hour as u64, 2, true, &mut ch, &mut tags, &mut piece, &mut last_value_full_width);
                }
            }
            Tok::HH12 => match perturb {
                Perturb::Hour12Zero => piece.push_str(if next_is_digit { "00" } else { ["0", "00"][ch.pick(2)] }),
                Perturb::Hour12Thirteen => piece.push_str(["13", "24", "99"][ch.pick(3)]),
                _ => {
                    numeric(hour12(p.hour) as u64, 2, true, &mut ch, &mut tags, &mut piece, &mut last_value_full_width);
                    tags.push("12-hour-clock");
                }
            },
            Tok::MI => {
                if perturb == Perturb::Minute60 {
                    piece.push_str(["60", "99", "61"][ch.pick(3)]);
                } else {
                    numeric(p.min as u64, 2, true, &mut ch, &mut tags, &mut piece, &mut last_value_full_width);
                }
            }
            Tok::SS => {
                if perturb == Perturb::Second60 {
                    piece.push_str(["60", "99", "61"][ch.pick(3)]);
                } else {
                    numeric(p.sec as u64, 2, true, &mut ch, &mut tags, &mut piece, &mut last_value_full_width);
                }
            }
            Tok::FF(pp) => {
                if minus {
                    piece.push_str("-5");
                } else {
                    let maxlen = pp.unwrap_or(9) as usize;
                    piece.push_str(&frac_digits);
                    // digits directly followed by a digit: only at full length (the picture
                    // keeps a separator after a fraction otherwise)
                    last_value_full_width = frac_digits.len() == maxlen;
                }
            }
            Tok::Mer { dotted, .. } => {
                piece.push_str(&random_case(&mer_text(p.hour, *dotted), &mut ch));
                last_value_full_width = true;
            }
            Tok::W | Tok::WW => {}
        }
        if perturb == Perturb::Lookalike && !lookalike_done && matches!(t, Tok::Mon(_) | Tok::Month(_) | Tok::Day(_) | Tok::Dy(_) | Tok::Mer { .. }) {
            piece = lookalike(&piece);
            lookalike_done = true;
        }
        if perturb == Perturb::BitFlip && !lookalike_done && matches!(t, Tok::Mon(_) | Tok::Month(_) | Tok::Day(_) | Tok::Dy(_) | Tok::Mer { .. }) {
            let (pos, bit) = (ch.pick(piece.len().max(1)), ch.pick(7));
            let names: &[&str] = match t {
                Tok::Mon(_) | Tok::Month(_) => &MONTH_NAMES,
                Tok::Day(_) | Tok::Dy(_) => &DAY_NAMES,
                _ => &["AM", "PM", "A.M.", "P.M."],
            };
            piece = bitflip(&piece, pos, bit, names, matches!(t, Tok::Mer { .. }));
            lookalike_done = true;
        }
        text.push_str(&piece);
    }
    if let Some(d) = &dup_text {
        text.push_str(d);
    }
    if perturb == Perturb::None && ch.flag(1, 8) {
        text.push_str(&" ".repeat(1 + ch.pick(3)));
        tags.push("extra-blanks");
    }
    if perturb == Perturb::Leftover {
        // a digit only when the last field is already at full width
        let opts: &[&str] = if last_value_full_width && cut.is_none() { &["#", "x", "7", " #", "?", "é"] } else { &["#", "x", " #", "?", "é"] };
        text.push_str(opts[ch.pick(opts.len())]);
    }
    let negative = perturb != Perturb::None;
    if negative {
        tags.push(perturb_name(perturb));
    }
    let picture = gen::spell_all(&ctoks);
    Built { kind, picture, text, expect: if negative || !in_range { None } else { Some(total) }, tags, negative }
}

/// Flips one bit of one (ASCII) character of `s`, starting the search at (`pos`, `bit`); a flip
/// is skipped when it only changes the letter case or when the result could still be read as a
/// valid name (its first three letters are those of a name of the list; for meridians: equals
/// one). Falls back to appending '#'.
pub fn bitflip(s: &str, pos: usize, bit: usize, names: &[&str], whole: bool) -> String {
    let b = s.as_bytes();
    if !s.is_ascii() || b.is_empty() {
        return format!("{s}#");
    }
    for k in 0..b.len() * 7 {
        let (p, bt) = ((pos + k / 7) % b.len(), (bit + k) % 7);
        let c = b[p] ^ (1u8 << bt);
        if c.eq_ignore_ascii_case(&b[p]) {
            continue;
        }
        let mut v = b.to_vec();
        v[p] = c;
        let up = String::from_utf8(v.clone()).unwrap().to_ascii_uppercase();
        let still_valid = if whole { names.iter().any(|n| up == *n) } else { names.iter().any(|n| up.len() >= 3 && n.to_ascii_uppercase().starts_with(&up[..3])) };
        if still_valid {
            continue;
        }
        return String::from_utf8(v).unwrap();
    }
    format!("{s}#")
}

/// Replaces one letter by a non-ASCII character that case-folds or looks like it.
pub fn lookalike(s: &str) -> String {
    let mut out = String::new();
    let mut done = false;
    for c in s.chars() {
        if !done {
            let r = match c {
                's' | 'S' => Some('\u{17f}'),
                'k' | 'K' => Some('\u{212a}'),
                'i' | 'I' => Some('\u{131}'),
                _ => None,
            };
            if let Some(r) = r {
                out.push(r);
                done = true;
                continue;
            }
        }
        out.push(c);
    }
    if !done {
        // no such letter: full-width form of the first ASCII letter
        out.clear();
        for c in s.chars() {
            if !done && c.is_ascii_alphabetic() {
                out.push(char::from_u32(c as u32 + 0xFEE0).unwrap());
                done = true;
            } else {
                out.push(c);
            }
        }
    }
    out
}

fn starts_with_digit(t: &Tok) -> bool {
    matches!(t, Tok::Year(_) | Tok::MM | Tok::DD | Tok::DDD | Tok::D | Tok::HH12 | Tok::HH24 | Tok::MI | Tok::SS | Tok::FF(_) | Tok::W | Tok::WW)
}

pub fn hour12(h: u32) -> u32 {
    match h {
        0 => 12,
        1..=12 => h,
        _ => h - 12,
    }
}

pub fn mer_text(hour: u32, dotted: bool) -> String {
    match (hour < 12, dotted) {
        (true, false) => "AM",
        (false, false) => "PM",
        (true, true) => "A.M.",
        (false, true) => "P.M.",
    }
    .to_string()
}

fn shuffle<T>(v: &mut Vec<T>, ch: &mut Ch) {
    // Fisher-Yates driven by the choice stream (all-zero choices leave the order unchanged)
    for i in 0..v.len() {
        let j = i + ch.pick(v.len() - i);
        v.swap(i, j);
    }
}

fn build_interval(kind: Kind, raw: i128, f: &Fields, ch: &mut Ch, want: Perturb) -> Built {
    let mut tags: Vec<&'static str> = vec![];
    let mut perturb = match want {
        Perturb::None | Perturb::Leftover | Perturb::IntervalFieldRange | Perturb::IntervalPastLimit | Perturb::Inapplicable | Perturb::Duplicate | Perturb::OutputOnly => want,
        _ => [Perturb::IntervalFieldRange, Perturb::IntervalPastLimit, Perturb::Leftover][ch.pick(3)],
    };
    let mut ctoks: Vec<CTok> = vec![];
    let mut text = String::new();
    let sign = if f.neg {
        "-"
    } else if ch.flag(1, 2) {
        "+"
    } else {
        ""
    };
    if sign.is_empty() {
        tags.push("interval-without-explicit-plus");
    }
    if ch.flag(1, 8) {
        text.push_str(&" ".repeat(1 + ch.pick(2)));
        tags.push("extra-blanks");
    }
    const ISEPS: [&str; 8] = [" ", "-", ":", "/", ".", ",", "  ", " - "];
    let mut expect_total: i128;
    if kind == Kind::YM {
        let n = 1 + ch.pick(4) as u8;
        ctoks.push((Tok::Year(n), ch.raw()));
        let mut years = f.year as u64;
        let mut month = f.month as u64;
        match perturb {
            Perturb::IntervalFieldRange => month = [12u64, 13, 99][ch.pick(3)],
            Perturb::IntervalPastLimit => {
                years = 178_000_000;
                if month == 0 {
                    month = 1 + ch.pick(11) as u64;
                }
                if ch.flag(1, 2) {
                    years = 178_000_001 + ch.pick(1000) as u64;
                }
            }
            _ => {}
        }
        let ytxt = if ch.flag(1, 3) { format!("{:0w$}", years, w = (n as usize).max(1)) } else { years.to_string() };
        if ytxt.len() > years.to_string().len() {
            tags.push("padded-interval-years");
        }
        text.push_str(sign);
        text.push_str(&ytxt);
        let sep = ISEPS[ch.pick(ISEPS.len())];
        ctoks.extend(sep_tokens(sep));
        text.push_str(sep);
        ctoks.push((Tok::MM, ch.raw()));
        let mut sc = vec![];
        let (mt, _) = if perturb == Perturb::IntervalFieldRange { (month.to_string(), false) } else { num(ch, month, 2, true, &mut sc) };
        tags.extend(sc);
        text.push_str(&mt);
        expect_total = (f.year as i128 * 12 + f.month as i128) * if f.neg { -1 } else { 1 };
    } else {
        ctoks.push((Tok::DD, ch.raw()));
        let mut days = f.day as u64;
        let mut rest = vec![Tok::HH24, Tok::MI, Tok::SS];
        let ffp = match ch.pick(5) {
            0 => None,
            1 => Some(None),
            2 => Some(Some(6)),
            3 => Some(Some(9)),
            _ => Some(Some(1 + ch.pick(9) as u8)),
        };
        if let Some(p) = ffp {
            rest.push(Tok::FF(p));
        }
        if ch.flag(1, 4) {
            shuffle(&mut rest, ch);
        }
        let (mut hour, mut min, mut sec) = (f.hour as u64, f.min as u64, f.sec as u64);
        match perturb {
            Perturb::IntervalFieldRange => match ch.pick(3) {
                0 => hour = [24u64, 25, 99][ch.pick(3)],
                1 => min = [60u64, 61, 99][ch.pick(3)],
                _ => sec = [60u64, 61, 99][ch.pick(3)],
            },
            Perturb::IntervalPastLimit => {
                days = 100_000_000;
                if hour == 0 && min == 0 && sec == 0 {
                    sec = 1;
                }
                if ch.flag(1, 2) {
                    days = 100_000_001 + ch.pick(1000) as u64;
                }
            }
            _ => {}
        }
        let dtxt = if ch.flag(1, 3) { format!("{days:02}") } else { days.to_string() };
        text.push_str(sign);
        text.push_str(&dtxt);
        // fraction digits
        let mut frac_digits = String::new();
        let mut usec: i128 = 0;
        if let Some(p) = ffp {
            let maxlen = p.unwrap_or(9) as usize;
            let len = 1 + ch.pick(maxlen);
            let style = ch.pick(4);
            for k in 0..len {
                let d = match style {
                    0 => {
                        if k < 6 {
                            ((f.usec as u64 / 10u64.pow(5 - k as u32)) % 10) as u8
                        } else {
                            0
                        }
                    }
                    1 => 9,
                    2 => {
                        if k + 1 == len {
                            5
                        } else {
                            9
                        }
                    }
                    _ => ch.pick(10) as u8,
                };
                frac_digits.push((b'0' + d) as char);
            }
            let n: i128 = frac_digits.parse().unwrap();
            if len <= 6 {
                usec = n * 10i128.pow(6 - len as u32);
            } else {
                let scale = 10i128.pow(len as u32 - 6);
                usec = (n + scale / 2) / scale;
                tags.push("fraction-beyond-six-digits");
                if usec == 1_000_000 {
                    tags.push("fraction-carry-into-seconds");
                }
            }
        }
        let mut prev_ff = false;
        for (k, t) in rest.iter().enumerate() {
            let mut sep = ISEPS[ch.pick(ISEPS.len())];
            if k > 0 && ch.flag(1, 6) && !prev_ff {
                sep = "";
            }
            ctoks.extend(sep_tokens(sep));
            text.push_str(sep);
            ctoks.push((t.clone(), ch.raw()));
            let next_digit = k + 1 < rest.len();
            let mut sc = vec![];
            let field = |v: u64, ch: &mut Ch, sc: &mut Vec<&'static str>| -> String {
                if perturb == Perturb::IntervalFieldRange {
                    return format!("{v:02}");
                }
                let (s, unp) = num(ch, v, 2, true, sc);
                if unp && next_digit {
                    sc.clear();
                    format!("{v:02}")
                } else {
                    s
                }
            };
            match t {
                Tok::HH24 => text.push_str(&field(hour, ch, &mut sc)),
                Tok::MI => text.push_str(&field(min, ch, &mut sc)),
                Tok::SS => text.push_str(&field(sec, ch, &mut sc)),
                Tok::FF(_) => text.push_str(&frac_digits),
                _ => {}
            }
            tags.extend(sc);
            prev_ff = matches!(t, Tok::FF(_));
        }
        let mag = f.day as i128 * US_PER_DAY + f.hour as i128 * US_PER_HOUR + f.min as i128 * US_PER_MIN + f.sec as i128 * US_PER_SEC + usec;
        expect_total = if f.neg { -mag } else { mag };
        if f.neg && mag == 0 {
            expect_total = 0;
        }
        let _ = raw;
    }
    let mut ctoks = gen::repair(ctoks, b'/');
    match perturb {
        Perturb::Inapplicable => {
            let (t, txt): (Tok, &str) = if kind == Kind::YM {
                [(Tok::DD, "01"), (Tok::HH24, "00"), (Tok::SS, "00"), (Tok::Mon(Style::Upper), "JAN"), (Tok::DDD, "001")][ch.pick(5)].clone()
            } else {
                [(Tok::HH12, "12"), (Tok::Mer { dotted: false, case: MerCase::Upper }, "AM"), (Tok::Year(4), "0001"), (Tok::MM, "01"), (Tok::D, "1")][ch.pick(5)].clone()
            };
            ctoks.push((Tok::Blank(1), 0));
            ctoks.push((t, 0));
            text.push(' ');
            text.push_str(txt);
        }
        Perturb::Duplicate => {
            let (t, txt): (Tok, String) = if kind == Kind::YM {
                if ch.flag(1, 2) {
                    (Tok::MM, format!("{:02}", f.month))
                } else {
                    (Tok::Year(4), f.year.to_string())
                }
            } else {
                [(Tok::DD, f.day.to_string()), (Tok::HH24, format!("{:02}", f.hour)), (Tok::MI, format!("{:02}", f.min)), (Tok::SS, format!("{:02}", f.sec))][ch.pick(4)].clone()
            };
            ctoks.push((Tok::Blank(1), 0));
            ctoks.push((t, 0));
            text.push(' ');
            text.push_str(&txt);
        }
        Perturb::OutputOnly => {
            ctoks.push((Tok::Blank(1), 0));
            ctoks.push((Tok::WW, 0));
            text.push_str(" 01");
        }
        Perturb::Leftover => {
            text.push_str(["#", "x", " #", "?"][ch.pick(4)]);
        }
        Perturb::None => {
            if ch.flag(1, 8) {
                text.push_str(&" ".repeat(1 + ch.pick(3)));
                tags.push("extra-blanks");
            }
        }
        _ => {}
    }
    if matches!(perturb, Perturb::None) {
        perturb = Perturb::None;
    }
    let negative = perturb != Perturb::None;
    if negative {
        tags.push(perturb_name(perturb));
    }
    let in_range = if kind == Kind::YM { ym_in_range(expect_total) } else { dt_in_range(expect_total) };
    if !in_range {
        tags.push("carry-leaves-the-range");
    }
    let picture = gen::spell_all(&ctoks);
    Built { kind, picture, text, expect: if negative || !in_range { None } else { Some(expect_total) }, tags, negative }
}
