use sqldt_verif::engine::*;
use sqldt_verif::props;
use std::time::Instant;

fn usage() -> ! {
    eprintln!("usage: sqldt-verif <C01..C19> <quick|thorough>\n       sqldt-verif replay <file>");
    std::process::exit(2);
}

fn main() {
    let args: Vec<String> = std::env::args().collect();
    if args.len() < 3 {
        usage();
    }
    silence_panics();
    let seed: u64 = std::env::var("VERIF_SEED").ok().and_then(|s| s.trim().parse::<i128>().ok()).map(|x| x as u64).unwrap_or(0);
    let findings = load_findings();

    if args[1] == "replay" {
        // raw libFuzzer artifacts are named fuzz-<target>-*.bin
        let fname = std::path::Path::new(&args[2]).file_name().map(|s| s.to_string_lossy().to_string()).unwrap_or_default();
        if fname.ends_with(".bin") {
            let target = fname.strip_prefix("fuzz-").and_then(|s| s.split('-').next()).unwrap_or("").to_string();
            let data = match std::fs::read(&args[2]) {
                Ok(d) => d,
                Err(e) => {
                    eprintln!("cannot read {}: {e}", args[2]);
                    std::process::exit(2);
                }
            };
            let prop = sqldt_verif::fuzz_entry::property_of(&target);
            let r = guarded(|| sqldt_verif::fuzz_entry::by_name(&target, &data));
            let code = match r {
                Ok(None) => {
                    eprintln!("unknown fuzz target in file name {fname}");
                    2
                }
                Ok(Some(Ok(()))) => {
                    println!("replay {}: property {prop} holds on this fuzz input (profile {})", args[2], profile_name());
                    0
                }
                Ok(Some(Err(m))) | Err(m) => {
                    println!("VIOLATION property={prop} replay={}", args[2]);
                    println!("  detail: {m}");
                    1
                }
            };
            std::process::exit(code);
        }
        let txt = match std::fs::read_to_string(&args[2]) {
            Ok(t) => t,
            Err(e) => {
                eprintln!("cannot read {}: {e}", args[2]);
                std::process::exit(2);
            }
        };
        let code = props::replay_file(&args[2], &txt, &findings);
        std::process::exit(code);
    }

    let prop = args[1].to_uppercase();
    let tier = args[2].as_str();
    if tier != "quick" && tier != "thorough" {
        usage();
    }
    let Some(p) = props::find(&prop) else { usage() };
    let ctx = Ctx { prop: p.id, tier: tier.to_string(), seed, thorough: tier == "thorough", profile: profile_name(), findings };
    let t0 = Instant::now();
    // a harness bug must not be reported as a violation
    let res = guarded(|| (p.run)(&ctx));
    let (st, rep) = match res {
        Ok(x) => x,
        Err(m) => {
            eprintln!("harness failure (not a violation): {m}");
            std::process::exit(2);
        }
    };
    let code = finish(&ctx, st, rep, t0.elapsed().as_secs_f64());
    std::process::exit(code);
}
