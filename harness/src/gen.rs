//! Picture grammar: pictures are generated as token lists (with free letter-case bits) and
//! concatenated; separators are inserted where two neighbours would fuse into another
//! token, so (almost) nothing is rejected.

use crate::model::text::*;
use proptest::prelude::*;

/// A token plus the bits that choose the letter case of its "free" letters.
pub type CTok = (Tok, u32);

fn styled_word(word: &str, st: Style, bits: u32) -> String {
    let mut out = String::new();
    for (i, c) in word.bytes().enumerate() {
        let up = match (i, st) {
            (0, Style::Upper) | (0, Style::Capital) => true,
            (0, _) => false,
            (1, Style::Upper) | (1, Style::Unspec) => true,
            (1, _) => false,
            _ => bits >> i & 1 == 1,
        };
        out.push(if up { c.to_ascii_uppercase() as char } else { c.to_ascii_lowercase() as char });
    }
    out
}

fn free_case(word: &str, bits: u32) -> String {
    word.bytes()
        .enumerate()
        .map(|(i, c)| if bits >> i & 1 == 1 { c.to_ascii_lowercase() as char } else { c.to_ascii_uppercase() as char })
        .collect()
}

/// Spells one token; `bits` selects the case of letters the statement leaves free, and for
/// the 12-hour token whether it is written `HH` or `HH12`.
pub fn spell_cased(t: &Tok, bits: u32) -> String {
    match t {
        Tok::Blank(n) => " ".repeat(*n),
        Tok::Punct(c) => (*c as char).to_string(),
        Tok::T => "T".into(),
        Tok::Year(n) => free_case(&"Y".repeat(*n as usize), bits),
        Tok::MM => free_case("MM", bits),
        Tok::Mon(s) => styled_word("MON", *s, bits),
        Tok::Month(s) => styled_word("MONTH", *s, bits),
        Tok::DD => free_case("DD", bits),
        Tok::DDD => free_case("DDD", bits),
        Tok::D => free_case("D", bits),
        Tok::Day(s) => styled_word("DAY", *s, bits),
        Tok::Dy(s) => styled_word("DY", *s, bits),
        Tok::HH12 => {
            if bits >> 8 & 1 == 1 {
                free_case("HH12", bits)
            } else {
                free_case("HH", bits)
            }
        }
        Tok::HH24 => free_case("HH24", bits),
        Tok::MI => free_case("MI", bits),
        Tok::SS => free_case("SS", bits),
        Tok::FF(None) => free_case("FF", bits),
        Tok::FF(Some(p)) => format!("{}{p}", free_case("FF", bits)),
        Tok::Mer { dotted, case } => {
            let pm = bits >> 9 & 1 == 1;
            let l = if pm { 'P' } else { 'A' };
            let (a, m) = match case {
                MerCase::Upper => (l, 'M'),
                MerCase::Lower => (l.to_ascii_lowercase(), 'm'),
                MerCase::Mixed => {
                    if bits & 1 == 1 {
                        (l, 'm')
                    } else {
                        (l.to_ascii_lowercase(), 'M')
                    }
                }
            };
            if *dotted {
                format!("{a}.{m}.")
            } else {
                format!("{a}{m}")
            }
        }
        Tok::W => free_case("W", bits),
        Tok::WW => free_case("WW", bits),
    }
}

pub fn spell_all(toks: &[CTok]) -> String {
    toks.iter().map(|(t, b)| spell_cased(t, *b)).collect()
}

fn fuses(a: &CTok, b: &CTok) -> bool {
    let s = format!("{}{}", spell_cased(&a.0, a.1), spell_cased(&b.0, b.1));
    tokenize(&s) != Some(vec![a.0.clone(), b.0.clone()])
}

/// Inserts a separator between neighbours that would fuse; returns the repaired list.
pub fn repair(toks: Vec<CTok>, sep: u8) -> Vec<CTok> {
    let mut out: Vec<CTok> = Vec::with_capacity(toks.len() + 4);
    for t in toks {
        if let Some(last) = out.last() {
            if fuses(last, &t) {
                let sep_tok = (Tok::Punct(sep), 0);
                if !fuses(last, &sep_tok) && !fuses(&sep_tok, &t) {
                    out.push(sep_tok);
                } else {
                    continue; // cannot be separated (e.g. blank next to blank): drop the token
                }
            }
        }
        out.push(t);
    }
    // pairwise separation is not always enough ("MON" + "T" + "HH24" reads as "MONTH"...):
    // verify every prefix and separate further where the reading diverges
    let mut i = 1;
    let mut guard = 0;
    while i < out.len() && guard < 200 {
        guard += 1;
        let want: Vec<Tok> = out[..=i].iter().map(|x| x.0.clone()).collect();
        if tokenize(&spell_all(&out[..=i])).as_ref() == Some(&want) || want.len() > MAX_TOKENS {
            i += 1;
            continue;
        }
        if out[i - 1].0 == Tok::T {
            out[i - 1] = (Tok::Punct(sep), 0);
        } else {
            out.insert(i, (Tok::Punct(sep), 0));
        }
        i = i.saturating_sub(1).max(1);
    }
    out
}

/// Shrinks a token list to at most `max` tokens by dropping blanks that sit next to another
/// separator (" - " becomes "-"), then leading / trailing blanks. Value tokens are never dropped.
pub fn fit(mut toks: Vec<CTok>, max: usize) -> Vec<CTok> {
    let is_sep = |t: &Tok| matches!(t, Tok::Blank(_) | Tok::Punct(_) | Tok::T);
    let mut guard = 0;
    while toks.len() > max && guard < 200 {
        guard += 1;
        // a blank adjacent to a punctuation token
        let mut hit = None;
        for i in 0..toks.len() {
            if matches!(toks[i].0, Tok::Blank(_)) {
                let prev_p = i > 0 && matches!(toks[i - 1].0, Tok::Punct(_));
                let next_p = i + 1 < toks.len() && matches!(toks[i + 1].0, Tok::Punct(_));
                if prev_p || next_p {
                    hit = Some(i);
                    break;
                }
            }
        }
        if hit.is_none() {
            if matches!(toks.first().map(|t| &t.0), Some(Tok::Blank(_))) {
                hit = Some(0);
            } else if matches!(toks.last().map(|t| &t.0), Some(Tok::Blank(_))) {
                hit = Some(toks.len() - 1);
            }
        }
        match hit {
            Some(i) => {
                toks.remove(i);
            }
            None => break,
        }
    }
    let _ = is_sep;
    repair(toks, b'/')
}

const STYLES: [Style; 4] = [Style::Upper, Style::Capital, Style::Lower, Style::Unspec];
const MERS: [MerCase; 3] = [MerCase::Upper, MerCase::Lower, MerCase::Mixed];
pub const PUNCT: [u8; 7] = [b'-', b':', b'/', b'\\', b',', b'.', b';'];

/// The whole token menu (value-bearing tokens first).
pub fn menu() -> Vec<Tok> {
    let mut v = vec![];
    for n in 1..=4 {
        v.push(Tok::Year(n));
    }
    v.push(Tok::MM);
    v.push(Tok::DD);
    v.push(Tok::DDD);
    v.push(Tok::D);
    v.push(Tok::W);
    v.push(Tok::WW);
    for s in STYLES {
        v.push(Tok::Mon(s));
        v.push(Tok::Month(s));
        v.push(Tok::Day(s));
        v.push(Tok::Dy(s));
    }
    v.push(Tok::HH12);
    v.push(Tok::HH24);
    v.push(Tok::MI);
    v.push(Tok::SS);
    v.push(Tok::FF(None));
    for p in 1..=9 {
        v.push(Tok::FF(Some(p)));
    }
    for d in [false, true] {
        for c in MERS {
            v.push(Tok::Mer { dotted: d, case: c });
        }
    }
    v
}

pub fn separators() -> Vec<Tok> {
    let mut v: Vec<Tok> = PUNCT.iter().map(|c| Tok::Punct(*c)).collect();
    v.push(Tok::T);
    v.push(Tok::Blank(1));
    v.push(Tok::Blank(2));
    v.push(Tok::Blank(3));
    v
}

/// Strategy for one token drawn from `menu` (value tokens) or a separator.
pub fn tok_from(menu: Vec<Tok>, long_blanks: bool) -> BoxedStrategy<CTok> {
    let seps = separators();
    let (nm, ns) = (menu.len(), seps.len());
    let blank_max = if long_blanks { 600usize } else { 6 };
    prop_oneof![
        6 => ((0..nm), any::<u32>()).prop_map(move |(i, b)| (menu[i].clone(), b)),
        3 => (0..ns).prop_map(move |i| (seps[i].clone(), 0)),
        1 => (1..=blank_max).prop_map(|n| (Tok::Blank(n), 0)),
    ]
    .boxed()
}

/// Token lists of `lo..=hi` tokens from the given value-token menu, repaired so that the
/// concatenation tokenizes back to the list.
pub fn picture(menu: Vec<Tok>, lo: usize, hi: usize, long_blanks: bool) -> BoxedStrategy<Vec<CTok>> {
    (proptest::collection::vec(tok_from(menu, long_blanks), lo..=hi), 0..PUNCT.len())
        .prop_map(|(v, s)| repair(v, PUNCT[s]))
        .boxed()
}

pub fn menu_for(kind: Kind) -> Vec<Tok> {
    menu().into_iter().filter(|t| applicable(kind, t)).collect()
}
