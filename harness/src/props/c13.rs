//! C13 – intervals decompose into sign and fields uniquely and negate symmetrically.

use crate::adapter as ad;
use crate::engine::*;
use crate::model::cal::*;
use crate::pools;
use serde_json::json;
use sqldatetime::{DateTime, Error, IntervalDT, IntervalYM, Sign};
use std::cmp::Ordering;

const P: &str = "C13";

pub fn check_ym(v: i32) -> Result<(), String> {
    let a = (v as i64).unsigned_abs();
    let (wy, wm) = ((a / 12) as u32, (a % 12) as u32);
    guarded(|| -> Result<(), String> {
        let x = IntervalYM::try_from_months(v).map_err(|e| format!("try_from_months({v}) = Err({e:?})"))?;
        if x.months() != v {
            return Err(format!("months() = {} after try_from_months({v})", x.months()));
        }
        let (s, y, m) = x.extract();
        let neg = s == Sign::Negative;
        if neg != (v < 0) || y != wy || m != wm {
            return Err(format!("extract({v} months) = ({s:?}, {y}, {m}), expected ({}, {wy}, {wm})", if v < 0 { "Negative" } else { "Positive" }));
        }
        if !IntervalYM::is_valid_ym(y, m) {
            return Err(format!("is_valid_ym({y}, {m}) = false for extracted fields"));
        }
        let back = IntervalYM::try_from_ym(y, m).map_err(|e| format!("try_from_ym({y}, {m}) = Err({e:?})"))?;
        let back = if neg { -back } else { back };
        if back != x || back.months() != v {
            return Err(format!("try_from_ym(extract({v})) with the sign re-applied = {}", back.months()));
        }
        let n = -x;
        if n.months() as i64 != -(v as i64) || (-n) != x {
            return Err(format!("negation of {v} months = {}, double negation = {}", n.months(), (-n).months()));
        }
        if IntervalYM::try_from_months(n.months()).is_err() {
            return Err(format!("negation of {v} months left the range"));
        }
        if x.year() != Some(v / 12) || x.month() != Some(v % 12) {
            return Err(format!("year()/month() of {v} months = {:?}/{:?}, expected {}/{}", x.year(), x.month(), v / 12, v % 12));
        }
        if x.day().is_some() || x.hour().is_some() || x.minute().is_some() || x.second().is_some() || DateTime::date(&x).is_some() {
            return Err("a year-month interval reports day/time fields".into());
        }
        if v as i128 > -YM_MAX {
            let p = IntervalYM::try_from_months(v - 1).map_err(|e| format!("try_from_months({}) = Err({e:?})", v - 1))?;
            if !(p < x) || p.cmp(&x) != Ordering::Less || p == x {
                return Err(format!("ordering of {} and {v} months is not numeric", v - 1));
            }
        }
        Ok(())
    })
    .unwrap_or_else(|p| Err(p))
    .map_err(|m| format!("IntervalYM {v}: {m}"))
}

pub fn check_dt(v: i64) -> Result<(), String> {
    let a = (v as i128).abs();
    let w = ((a / US_PER_DAY) as u32, (a % US_PER_DAY / US_PER_HOUR) as u32, (a % US_PER_HOUR / US_PER_MIN) as u32, (a % US_PER_MIN / US_PER_SEC) as u32, (a % US_PER_SEC) as u32);
    guarded(|| -> Result<(), String> {
        let x = IntervalDT::try_from_usecs(v).map_err(|e| format!("try_from_usecs({v}) = Err({e:?})"))?;
        if x.usecs() != v {
            return Err(format!("usecs() = {}", x.usecs()));
        }
        let (s, d, h, mi, sec, us) = x.extract();
        let neg = s == Sign::Negative;
        if neg != (v < 0) || (d, h, mi, sec, us) != w {
            return Err(format!("extract() = ({s:?}, {d}, {h}, {mi}, {sec}, {us}), expected ({}, {:?})", if v < 0 { "Negative" } else { "Positive" }, w));
        }
        if !IntervalDT::is_valid(d, h, mi, sec, us) {
            return Err("is_valid(extracted fields) = false".into());
        }
        let back = IntervalDT::try_from_dhms(d, h, mi, sec, us).map_err(|e| format!("try_from_dhms(extracted fields) = Err({e:?})"))?;
        let back = if neg { -back } else { back };
        if back != x {
            return Err(format!("try_from_dhms(extract()) with the sign re-applied = {}", back.usecs()));
        }
        let n = -x;
        if n.usecs() as i128 != -(v as i128) || (-n) != x || IntervalDT::try_from_usecs(n.usecs()).is_err() {
            return Err(format!("negation = {}, double negation = {}", n.usecs(), (-n).usecs()));
        }
        let vv = v as i128;
        let sec_f = (vv % US_PER_MIN) as f64 / 1_000_000.0;
        if x.day() != Some((vv / US_PER_DAY) as i32)
            || x.hour() != Some((vv % US_PER_DAY / US_PER_HOUR) as i32)
            || x.minute() != Some((vv % US_PER_HOUR / US_PER_MIN) as i32)
            || x.second().map(|q| q.to_bits()) != Some(sec_f.to_bits())
        {
            return Err(format!(
                "day/hour/minute/second accessors = {:?}/{:?}/{:?}/{:?}, expected {}/{}/{}/{}",
                x.day(),
                x.hour(),
                x.minute(),
                x.second(),
                vv / US_PER_DAY,
                vv % US_PER_DAY / US_PER_HOUR,
                vv % US_PER_HOUR / US_PER_MIN,
                sec_f
            ));
        }
        if x.year().is_some() || x.month().is_some() || DateTime::date(&x).is_some() {
            return Err("a day-time interval reports year/month/date".into());
        }
        if vv > -DT_MAX {
            let p = IntervalDT::try_from_usecs(v - 1).map_err(|e| format!("try_from_usecs({}) = Err({e:?})", v - 1))?;
            if !(p < x) || p.cmp(&x) != Ordering::Less || p == x {
                return Err("ordering of consecutive intervals is not numeric".into());
            }
        }
        Ok(())
    })
    .unwrap_or_else(|p| Err(p))
    .map_err(|m| format!("IntervalDT {v}: {m}"))
}

pub fn check_ym_grid(y: u32, m: u32) -> Result<bool, String> {
    let month_bad = m >= 12;
    let range_bad = y >= 178_000_000 && !(y == 178_000_000 && m == 0);
    let (r, v) = guarded(|| (IntervalYM::try_from_ym(y, m), IntervalYM::is_valid_ym(y, m)))?;
    if v != r.is_ok() {
        return Err(format!("is_valid_ym({y}, {m}) = {v} but try_from_ym is_ok = {}", r.is_ok()));
    }
    match r {
        Ok(x) => {
            if month_bad || range_bad {
                return Err(format!("try_from_ym({y}, {m}) accepted (months {})", x.months()));
            }
            if x.months() as i128 != y as i128 * 12 + m as i128 {
                return Err(format!("try_from_ym({y}, {m}).months() = {}", x.months()));
            }
            Ok(true)
        }
        Err(e) => {
            let ok = match e {
                // the statement fixes no error kinds: only a kind whose documented meaning names a
                // field that is fine is a contradiction; any other kind is "an error"
                Error::InvalidMonth => month_bad,
                Error::IntervalOutOfRange => range_bad,
                _ => true,
            };
            if !ok {
                return Err(format!("try_from_ym({y}, {m}) = Err({e:?}); month bad = {month_bad}, value out of range = {range_bad}"));
            }
            Ok(false)
        }
    }
}

pub fn check_dt_grid(d: u32, h: u32, mi: u32, s: u32, us: u32) -> Result<bool, String> {
    let (hb, mb, sb, ub) = (h >= 24, mi >= 60, s >= 60, us >= 1_000_000);
    let range_bad = d >= 100_000_000 && !(d == 100_000_000 && h == 0 && mi == 0 && s == 0 && us == 0);
    let (r, v) = guarded(|| (IntervalDT::try_from_dhms(d, h, mi, s, us), IntervalDT::is_valid(d, h, mi, s, us)))?;
    if v != r.is_ok() {
        return Err(format!("is_valid({d},{h},{mi},{s},{us}) = {v} but try_from_dhms is_ok = {}", r.is_ok()));
    }
    match r {
        Ok(x) => {
            if hb || mb || sb || ub || range_bad {
                return Err(format!("try_from_dhms({d},{h},{mi},{s},{us}) accepted (usecs {})", x.usecs()));
            }
            let want = d as i128 * US_PER_DAY + pools::hms(h as i128, mi as i128, s as i128, us as i128);
            if x.usecs() as i128 != want {
                return Err(format!("try_from_dhms({d},{h},{mi},{s},{us}).usecs() = {}, expected {want}", x.usecs()));
            }
            Ok(true)
        }
        Err(e) => {
            let ok = match e {
                Error::TimeOutOfRange => hb,
                Error::InvalidMinute => mb,
                Error::InvalidSecond => sb,
                Error::InvalidFraction => ub,
                Error::IntervalOutOfRange => range_bad,
                _ => true,
            };
            if !ok {
                return Err(format!("try_from_dhms({d},{h},{mi},{s},{us}) = Err({e:?}) does not match a bad field"));
            }
            Ok(false)
        }
    }
}

/// Every comparison operator on two intervals of the same kind (0 = year-month, 1 = day-time)
/// agrees with the numeric order of their counts.
pub fn check_order_pair(kind: u8, a: i128, b: i128) -> Result<(), String> {
    fn agree<T: PartialOrd + Ord + PartialEq + Copy>(x: &T, y: &T, want: Ordering) -> bool {
        ord_provided_ok(*x, *y, want) && x.partial_cmp(y) == Some(want) && x.cmp(y) == want && (x == y) == (want == Ordering::Equal) && (x != y) == (want != Ordering::Equal) && (x < y) == (want == Ordering::Less) && (x <= y) == (want != Ordering::Greater) && (x > y) == (want == Ordering::Greater) && (x >= y) == (want != Ordering::Less)
    }
    let want = a.cmp(&b);
    let ok = guarded(|| if kind == 0 { agree(&ad::ym(a as i32), &ad::ym(b as i32), want) } else { agree(&ad::dt(a as i64), &ad::dt(b as i64), want) })?;
    if ok {
        Ok(())
    } else {
        Err(format!("{} {a} vs {b}: ==, !=, <, <=, >, >=, partial_cmp, cmp, max, min, clamp or sort disagrees with the numeric order ({want:?})", if kind == 0 { "IntervalYM" } else { "IntervalDT" }))
    }
}

pub fn check_oob(kind: u8, v: i64) -> Result<(), String> {
    let r = guarded(|| match kind {
        0 => IntervalYM::try_from_months(v as i32).map(|x| x.months() as i64),
        _ => IntervalDT::try_from_usecs(v).map(|x| x.usecs()),
    })?;
    match r {
        Err(_) => Ok(()),
        other => Err(format!("{}({v}) = {other:?}, expected an error (the count is outside the documented range)", if kind == 0 { "IntervalYM::try_from_months" } else { "IntervalDT::try_from_usecs" })),
    }
}

pub fn eval(case: &Case) -> Verdict {
    let i = &case.i;
    let r = match case.kind.as_str() {
        "ym" => check_ym(i[0] as i32),
        "dt" => check_dt(i[0] as i64),
        "order_pair" => check_order_pair(i[0] as u8, i[1], i[2]),
        "ym_grid" => check_ym_grid(i[0] as u32, i[1] as u32).map(|_| ()),
        "dt_grid" => check_dt_grid(i[0] as u32, i[1] as u32, i[2] as u32, i[3] as u32, i[4] as u32).map(|_| ()),
        "oob" => check_oob(i[0] as u8, i[1] as i64),
        k => Err(format!("unknown case kind {k}")),
    };
    match r {
        Ok(()) => Verdict::Pass,
        Err(m) => Verdict::Fail(m),
    }
}

pub fn run(ctx: &Ctx) -> (Stats, Report) {
    let mut st = Stats::new();
    let mut mark = (0, 0);
    run_replays(P, &mut st, &eval);
    st.section("replays", &mut mark);
    let seed = ctx.seed;
    let ymax = YM_MAX as i64;

    // YM: all values (thorough) / strided + windows (quick)
    let total = (2 * ymax + 1) as u64;
    let stride: u64 = if ctx.thorough { 1 } else { 67 };
    let count = (total + stride - 1) / stride;
    let s = par_sweep(count, 1 << 18, |range, st| {
        for k in range {
            let v = (-ymax + (k * stride) as i64) as i32;
            st.evaluations += 1;
            if v < 0 || (v as i64).abs() <= 12 || ymax - (v as i64).abs() <= 12 {
                st.nontrivial_enum += 1;
            }
            if let Err(m) = check_ym(v) {
                st.fail(k, Case::new(P, "ym", vec![v as i128], vec![]), m);
                return;
            }
        }
    });
    st.merge(s);
    if ctx.thorough {
        st.exhaustive_sections.push("all 4,272,000,001 year-month interval values".into());
    }
    // windows around zero and both limits (always)
    let mut windows: Vec<i32> = vec![];
    for d in 0..=3000i64 {
        windows.push(d as i32);
        windows.push(-d as i32);
        windows.push((ymax - d) as i32);
        windows.push((-ymax + d) as i32);
    }
    for (k, v) in windows.iter().enumerate() {
        st.evaluations += 1;
        st.fps.push(hash_ints(0x13, &[*v as i128]));
        if let Err(m) = check_ym(*v) {
            st.fail(k as u64, Case::new(P, "ym", vec![*v as i128], vec![]), m);
            break;
        }
    }
    st.sample(1, || json!({"kind": "ym", "months": -ymax, "fields": "-178000000-00"}));
    st.sample(2, || json!({"kind": "ym", "months": -13, "fields": "-1-01"}));
    st.section("year_month_values", &mut mark);

    // DT values
    let mut vals: Vec<i128> = pools::dt_pool(seed, if ctx.thorough { 150_000_000 } else { 12_000_000 });
    for unit in [US_PER_SEC, US_PER_MIN, US_PER_HOUR, US_PER_DAY] {
        for k in [1i128, 2, 3, 23, 24, 25, 59, 60, 61, 99, 100, 1000, 99_999_999] {
            for d in [-1i128, 0, 1] {
                let x = k * unit + d;
                if x <= DT_MAX {
                    vals.push(x);
                    vals.push(-x);
                }
            }
        }
    }
    let two_days = 2 * 86_400;
    let s = par_sweep((2 * two_days + 1) as u64, 2048, |range, st| {
        for k in range {
            let sec = k as i64 - two_days;
            for us in [0i64, 1, -1] {
                let v = sec * 1_000_000 + us;
                st.evaluations += 1;
                st.nontrivial_enum += 1;
                if let Err(m) = check_dt(v) {
                    st.fail(k, Case::new(P, "dt", vec![v as i128], vec![]), m);
                    return;
                }
            }
        }
    });
    st.merge(s);
    st.exhaustive_sections.push("every second within +-2 days (+0/+-1 us)".into());
    // dense leading field x boundary lower fields: every day count 0..=300,000 (then a geometric
    // ladder up to the limit) with the time of day at its extremes, both signs
    let mut day_counts: Vec<i128> = (0..=300_000i128).collect();
    let mut d = 300_000f64;
    while d < 100_000_000.0 {
        d *= 1.002;
        day_counts.push((d as i128).min(99_999_999));
    }
    let tods: [i128; 7] = [0, 1, US_PER_SEC, pools::hms(12, 0, 0, 0), pools::hms(23, 59, 59, 0), pools::hms(23, 59, 59, 500_000), pools::hms(23, 59, 59, 999_999)];
    let dref = &day_counts;
    let s = par_sweep(day_counts.len() as u64, 1 << 11, |range, st| {
        for k in range {
            for t in tods {
                let v = dref[k as usize] * US_PER_DAY + t;
                for x in [v, -v] {
                    st.evaluations += 1;
                    st.nontrivial_enum += (x != 0 && (x < 0 || t != 0)) as u64;
                    if let Err(m) = check_dt(x as i64) {
                        st.fail(k, Case::new(P, "dt", vec![x], vec![]), m);
                        return;
                    }
                }
            }
        }
    });
    st.merge(s);
    st.exhaustive_sections.push("every day count 0..=300,000 x 7 boundary times of day x both signs".into());
    let s = par_sweep(vals.len() as u64, 1 << 14, |range, st| {
        for k in range {
            let v = vals[k as usize];
            st.evaluations += 1;
            if v < 0 || v.abs() <= US_PER_SEC || DT_MAX - v.abs() <= US_PER_DAY {
                st.fps.push(hash_ints(0x14, &[v]));
            }
            if let Err(m) = check_dt(v as i64) {
                st.fail(k, Case::new(P, "dt", vec![v], vec![]), m);
                return;
            }
            let key = mix64(seed ^ mix64(k));
            if key < st.sample_threshold() {
                st.sample(key, || json!({"kind": "dt", "usecs": v.to_string()}));
            }
        }
    });
    st.merge(s);
    st.section("day_time_values", &mut mark);

    // constructor grids and out-of-range counts
    let ys = [0u32, 1, 11, 12, 177_999_999, 178_000_000, 178_000_001, 357_913_941, 357_913_942, u32::MAX - 1, u32::MAX];
    let ms = [0u32, 1, 11, 12, 13, 255, 256, u32::MAX];
    let mut k = 0u64;
    for &y in &ys {
        for &m in &ms {
            st.evaluations += 1;
            k += 1;
            match check_ym_grid(y, m) {
                Ok(true) => st.class("ym-fields-accepted"),
                Ok(false) => {
                    st.class("ym-fields-rejected");
                    st.nontrivial_enum += 1;
                }
                Err(msg) => st.fail(k, Case::new(P, "ym_grid", vec![y as i128, m as i128], vec![]), msg),
            }
        }
    }
    let ds = [0u32, 1, 31, 32, 99_999_999, 100_000_000, 100_000_001, 213_503_982, 213_503_983, u32::MAX];
    let hs = [0u32, 1, 23, 24, 25, u32::MAX];
    let mis = [0u32, 59, 60, 61, u32::MAX];
    let uss = [0u32, 1, 999_999, 1_000_000, u32::MAX];
    'g: for &d in &ds {
        for &h in &hs {
            for &mi in &mis {
                for &s in &mis {
                    for &us in &uss {
                        st.evaluations += 1;
                        k += 1;
                        match check_dt_grid(d, h, mi, s, us) {
                            Ok(true) => st.class("dt-fields-accepted"),
                            Ok(false) => {
                                st.class("dt-fields-rejected");
                                st.nontrivial_enum += 1;
                            }
                            Err(msg) => {
                                st.fail(k, Case::new(P, "dt_grid", vec![d as i128, h as i128, mi as i128, s as i128, us as i128], vec![]), msg);
                                break 'g;
                            }
                        }
                    }
                }
            }
        }
    }
    // the day limit and its neighbours x every boundary / binary-boundary time of day (where a
    // narrowed time part would look like zero)
    {
        let mut times = pools::time_edges();
        times.extend(pools::binary_times_of_day());
        times.extend(pools::mirrored_binary_times());
        for &d in &[0u32, 1, 99_999_999, 100_000_000, 100_000_001] {
            for &t in &times {
                let (h, mi, se, us) = ((t / US_PER_HOUR) as u32, (t % US_PER_HOUR / US_PER_MIN) as u32, (t % US_PER_MIN / US_PER_SEC) as u32, (t % US_PER_SEC) as u32);
                st.evaluations += 1;
                k += 1;
                match check_dt_grid(d, h, mi, se, us) {
                    Ok(true) => st.class("dt-fields-accepted"),
                    Ok(false) => {
                        st.class("dt-fields-rejected");
                        st.nontrivial_enum += 1;
                    }
                    Err(msg) => {
                        st.fail(k, Case::new(P, "dt_grid", vec![d as i128, h as i128, mi as i128, se as i128, us as i128], vec![]), msg);
                        break;
                    }
                }
            }
        }
    }
    for d in [1i64, 2, 12, 1000] {
        for v in [ymax + d, -ymax - d] {
            st.evaluations += 1;
            st.nontrivial_enum += 1;
            if let Err(m) = check_oob(0, v) {
                st.fail(0, Case::new(P, "oob", vec![0, v as i128], vec![]), m);
            }
        }
        for v in [DT_MAX as i64 + d, -(DT_MAX as i64) - d] {
            st.evaluations += 1;
            st.nontrivial_enum += 1;
            if let Err(m) = check_oob(1, v) {
                st.fail(0, Case::new(P, "oob", vec![1, v as i128], vec![]), m);
            }
        }
    }
    for v in [i32::MIN as i64, i32::MAX as i64] {
        st.evaluations += 1;
        if let Err(m) = check_oob(0, v) {
            st.fail(0, Case::new(P, "oob", vec![0, v as i128], vec![]), m);
        }
    }
    for v in [i64::MIN, i64::MIN + 1, i64::MAX] {
        st.evaluations += 1;
        if let Err(m) = check_oob(1, v) {
            st.fail(0, Case::new(P, "oob", vec![1, v as i128], vec![]), m);
        }
    }
    st.section("constructor_grids", &mut mark);

    // ordering of arbitrary pairs (near and far apart, both signs, the limits): every operator
    for kind in [0u8, 1] {
        let mut vals: Vec<i128> = if kind == 0 { pools::ym_edges() } else { pools::dt_edges() };
        let mut sm = SplitMix(seed ^ 0x0d13 ^ kind as u64);
        let lim = if kind == 0 { YM_MAX } else { DT_MAX };
        for _ in 0..200 {
            vals.push(sm.range_i128(-lim, lim));
        }
        if vals.len() > 900 {
            let step = vals.len() as f64 / 900.0;
            let mut t: Vec<i128> = (0..900).map(|k| vals[(k as f64 * step) as usize]).collect();
            t.extend([-lim, lim, 0, -1, 1, lim - 1, 1 - lim]);
            vals = t;
        }
        let vref = &vals;
        let s = par_sweep((vals.len() * vals.len()) as u64, 1 << 14, |range, st| {
            for k in range {
                let (a, b) = (vref[k as usize / vref.len()], vref[k as usize % vref.len()]);
                st.evaluations += 1;
                if (a - b).abs() > lim {
                    st.nontrivial_enum += 1;
                }
                if let Err(m) = check_order_pair(kind, a, b) {
                    st.fail(k, Case::new(P, "order_pair", vec![kind as i128, a, b], vec![]), m);
                    return;
                }
            }
        });
        st.merge(s);
    }
    st.section("ordering_of_pairs", &mut mark);
    let _ = ad::in_range;

    let rep = Report {
        rule: format!("Year-month intervals: {} (plus +-3000 around zero and both limits); day-time intervals: every second within +-2 days (+0/+-1 us), every power of ten +-1, unit multiples +-1 us, range limits, {} seeded values on four magnitude scales; constructor validity grids with u32 extremes; out-of-range raw counts. Oracle: sign + div/rem decomposition of |value| in i128; constructors inverse and accepting exactly the well-formed tuples inside the symmetric range with the matching error kind; negation an involution onto the range; signed accessors = truncating division; ordering numeric (==, !=, <, <=, >, >=, partial_cmp, cmp, and the provided Ord methods max / min / clamp and sorting, over all pairs of a 900-value pool). Non-trivial = negative, or within one unit of zero or of a limit, or a rejected tuple.", if ctx.thorough { "all 4,272,000,001 values" } else { "every 199th value" }, if ctx.thorough { "150,000,000" } else { "3,000,000" }),
        assumptions: vec!["second() is compared with the correctly rounded double of (signed microseconds within the minute)/10^6".into()],
        exhaustive: false,
        extra: Default::default(),
    };
    (st, rep)
}
