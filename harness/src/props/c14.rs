//! C14 – scaling an interval by a float truncates toward zero and classifies bad operands.

use crate::adapter as ad;
use crate::engine::*;
use crate::model::cal::*;
use crate::model::dyadic::{div_expect, mul_expect, ErrKind, Expect};
use crate::model::text::Kind;
use crate::pools;
use crate::strat;
use proptest::prelude::*;
use serde_json::json;
use sqldatetime::Error;

const P: &str = "C14";
const NAMES: [&str; 3] = ["IntervalYM", "IntervalDT", "Time"];

fn lib_scale(which: u8, x: i128, k: f64, div: bool) -> Result<Result<i128, Error>, String> {
    guarded(|| match which {
        0 => {
            let v = ad::ym(x as i32);
            (if div { v.div_f64(k) } else { v.mul_f64(k) }).map(|r| r.months() as i128)
        }
        1 => {
            let v = ad::dt(x as i64);
            (if div { v.div_f64(k) } else { v.mul_f64(k) }).map(|r| r.usecs() as i128)
        }
        _ => {
            let v = ad::time(x as i64);
            (if div { v.div_f64(k) } else { v.mul_f64(k) }).map(|r| r.usecs() as i128)
        }
    })
}

fn kind_of(e: &Error) -> Option<ErrKind> {
    match e {
        Error::InvalidNumber => Some(ErrKind::InvalidNumber),
        Error::NumericOverflow => Some(ErrKind::NumericOverflow),
        Error::DivideByZero => Some(ErrKind::DivideByZero),
        Error::IntervalOutOfRange => Some(ErrKind::Range),
        _ => None,
    }
}

pub fn expectation(which: u8, x: i128, k: f64, div: bool) -> Expect {
    let lim = if which == 0 { YM_MAX } else { DT_MAX };
    if div {
        div_expect(x, k, lim)
    } else {
        mul_expect(x, k, lim)
    }
}

pub fn check_scale(which: u8, x: i128, k: f64, div: bool) -> Result<(bool, &'static str), String> {
    let ex = expectation(which, x, k, div);
    let got = lib_scale(which, x, k, div)?;
    let ctx = || format!("{}({x}).{}({k:e} [bits {:#x}])", NAMES[which as usize], if div { "div_f64" } else { "mul_f64" }, k.to_bits());
    match got {
        Ok(r) => match ex.ok {
            Some((lo, hi)) if lo <= r && r <= hi => {}
            Some((lo, hi)) => {
                return Err(format!(
                    "{} = Ok({r}), admissible results (real {} computed to double precision, truncated toward zero) are {lo}..={hi}{}",
                    ctx(),
                    if div { "quotient" } else { "product" },
                    if ex.exact { " [exact case]" } else { "" }
                ))
            }
            None => return Err(format!("{} = Ok({r}), expected an error of kind {:?} ({})", ctx(), ex.errs, ex.class)),
        },
        Err(e) => match kind_of(&e) {
            Some(kd) if ex.errs.contains(&kd) => {}
            _ => {
                return Err(format!(
                    "{} = Err({e:?}), expected {} ({})",
                    ctx(),
                    match ex.ok {
                        Some((lo, hi)) if ex.errs.is_empty() => format!("Ok({lo}..={hi})"),
                        Some((lo, hi)) => format!("Ok({lo}..={hi}) or one of {:?}", ex.errs),
                        None => format!("one of {:?}", ex.errs),
                    },
                    ex.class
                ))
            }
        },
    }
    // symmetry (-x) * k = -(x * k) = x * (-k), compared as whole Results
    let neg = |r: &Result<i128, Error>| r.clone().map(|v| -v);
    let base = lib_scale(which, x, k, div)?;
    let flipped_k = lib_scale(which, x, -k, div)?;
    if flipped_k != neg(&base) {
        return Err(format!("{}: negating the factor gives {flipped_k:?}, expected the negation of {base:?}", ctx()));
    }
    if which != 2 {
        let flipped_x = lib_scale(which, -x, k, div)?;
        if flipped_x != neg(&base) {
            return Err(format!("{}: negating the interval gives {flipped_x:?}, expected the negation of {base:?}", ctx()));
        }
    }
    let integer_k = k.is_finite() && k.fract() == 0.0;
    let nontrivial = ex.ok.is_none() || !ex.errs.is_empty() || (!integer_k && x != 0);
    Ok((nontrivial, ex.class))
}

pub fn eval(case: &Case) -> Verdict {
    let i = &case.i;
    let r = match case.kind.as_str() {
        "scale" => check_scale(i[0] as u8, i[1], i2f(i[2]), i[3] != 0).map(|_| ()),
        k => Err(format!("unknown case kind {k}")),
    };
    match r {
        Ok(()) => Verdict::Pass,
        Err(m) => Verdict::Fail(m),
    }
}

pub fn run(ctx: &Ctx) -> (Stats, Report) {
    let mut st = Stats::new();
    let mut mark = (0, 0);
    run_replays(P, &mut st, &eval);
    st.section("replays", &mut mark);
    let seed = ctx.seed;

    // E1: pools x scalar pool (+ edge-seeking factors per interval)
    for which in [0u8, 1, 2] {
        let xs: Vec<i128> = match which {
            0 => pools::ym_pool(seed, if ctx.thorough { 1200 } else { 250 }),
            1 => pools::dt_pool(seed, if ctx.thorough { 1200 } else { 250 }),
            _ => pools::time_pool(seed, if ctx.thorough { 900 } else { 150 }),
        };
        let base = pools::f64_scalars();
        let lim = if which == 0 { YM_MAX } else { DT_MAX };
        let s = par_sweep(xs.len() as u64, 8, |range, st| {
            for xi in range {
                let x = xs[xi as usize];
                let mut fs = base.clone();
                fs.extend(strat::edge_seeking(x, lim));
                fs.extend(strat::edge_seeking(x, lim + 1));
                fs.extend(strat::edge_seeking(x, 1 << 53));
                fs.extend(strat::overflow_seeking(x));
                fs.extend(strat::self_seeking(x));
                // the range limits themselves (and the length of a day) as scalars
                for l in [lim, lim + 1, lim - 1, US_PER_DAY, (1i128 << 53) + 1] {
                    fs.extend(strat::self_seeking(l).into_iter().take(6));
                }
                for (fi, &f) in fs.iter().enumerate() {
                    for div in [false, true] {
                        st.evaluations += 1;
                        match check_scale(which, x, f, div) {
                            Ok((nt, class)) => {
                                st.class(class);
                                if nt {
                                    st.fps.push(hash_ints(which as u64, &[x, f2i(f), div as i128]));
                                    let key = mix64(seed ^ mix64(xi * 4096 + fi as u64 * 2 + div as u64) ^ which as u64);
                                    if key < st.sample_threshold() {
                                        st.sample(key, || json!({"type": NAMES[which as usize], "value": x.to_string(), "op": if div {"div_f64"} else {"mul_f64"}, "factor": f, "class": class, "expect": format!("{:?}", expectation(which, x, f, div))}));
                                    }
                                }
                            }
                            Err(m) => {
                                st.fail(xi, Case::new(P, "scale", vec![which as i128, x, f2i(f), div as i128], vec![]), m);
                                return;
                            }
                        }
                    }
                }
            }
        });
        st.merge(s);
    }
    st.section("pool_x_scalar_classes", &mut mark);

    // E2: proptest
    for which in [0u8, 1, 2] {
        let kind = [Kind::YM, Kind::DT, Kind::Time][which as usize];
        let s = pt_run(
            &format!("C14/{}", NAMES[which as usize]),
            seed,
            (if ctx.thorough { 160_000_000 } else { 9_600_000 }) / THREADS as u32,
            THREADS,
            || (strat::raw(kind), strat::any_f64(), any::<bool>()),
            |(x, f, div): &(i128, f64, bool), st: &mut Stats| {
                st.evaluations += 1;
                let (nt, class) = check_scale(which, *x, *f, *div)?;
                st.class(class);
                if nt {
                    st.fps.push(hash_ints(which as u64, &[*x, f2i(*f), *div as i128]));
                }
                Ok(())
            },
            |(x, f, div): &(i128, f64, bool)| Case::new(P, "scale", vec![which as i128, *x, f2i(*f), *div as i128], vec![]),
        );
        st.merge(s);
    }
    st.section("random_operands", &mut mark);

    let rep = Report {
        rule: "IntervalYM / IntervalDT / Time x {mul_f64, div_f64}: boundary+seeded interval pools x a classed scalar pool (small and large integers, dyadic fractions, decimals, tiny, huge, +-0, +-inf, NaN) plus per-interval edge-seeking factors limit/x, (limit+1)/x, 2^53/x and their bit neighbours, and factors tuned to the overflow boundary of the double (product / quotient = MAX x {1/4, 1/2, 1, 2, 4}), scalars derived from the operand itself (x, x/2, 2x, x/3, x/10, 1/x, x+-1 with bit neighbours and both signs: quotients of exactly +-1, 2, 1/2) and the range limits / the length of a day as scalars (E1); proptest-generated (interval, double) pairs with shrinking (E2). Oracle: exact dyadic-rational arithmetic: admissible Ok values are trunc(y) for |y - exact| <= 2^-52|exact| (enlarged by at most a relative 2^-60), a single value x*k for integer k with |x*k| < 2^53; NaN -> InvalidNumber, infinite operand or real result beyond the double range -> NumericOverflow, zero divisor -> DivideByZero, finite out-of-range -> IntervalOutOfRange (either outcome accepted only when the admissible set straddles the limit / the double maximum); sign symmetry compared as whole Results. Non-trivial = non-integer factor on a non-zero interval, or any error class; distinct by fingerprint.".into(),
        assumptions: vec!["the admissible set is a superset of the statement's tolerance by construction, so floating-point ties cannot raise an alarm".into()],
        exhaustive: false,
        extra: Default::default(),
    };
    (st, rep)
}
