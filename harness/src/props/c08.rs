//! C08 – day and microsecond arithmetic is exact, invertible and exactly range-checked.

use crate::adapter as ad;
use crate::engine::*;
use crate::model::cal::*;
use crate::model::dyadic::{day_offset, Offset};
use crate::model::text::{Kind, Val};
use crate::ops::*;
use crate::pools;
use crate::strat;
use proptest::prelude::*;
use serde_json::json;

const P: &str = "C08";

pub fn in_range_kind(kind: Kind, raw: i128) -> bool {
    ad::in_range(&Val::new(kind, raw))
}

/// Judges one call of a linear operation against its exact integer model.
/// Returns (nontrivial, class).
pub fn judge_linear(op: &Op, args: &[Arg]) -> Result<(bool, &'static str), String> {
    let model = (op.model)(args);
    let got = guarded(|| (op.call)(args)).map_err(|p| format!("{}({}): {p}", op.name, describe_args(args)))?;
    let boundary = |v: i128, kind: Kind| -> bool {
        let (lo, hi) = strat::limits(kind);
        let unit = match kind {
            Kind::Date => 1,
            Kind::YM => 12,
            _ => US_PER_DAY,
        };
        (v - lo).abs() <= unit || (v - hi).abs() <= unit
    };
    match model {
        Model::Exact(kind, want) => {
            let inr = in_range_kind(kind, want);
            match got {
                Ok(Out::Val(v)) => {
                    if v.kind != kind || v.raw != want {
                        return Err(format!("{}({}) = Ok({}), exact arithmetic gives {want}", op.name, describe_args(args), v.raw));
                    }
                    if !inr {
                        return Err(format!("{}({}) = Ok({}) although the exact result {want} is outside the range of {}", op.name, describe_args(args), v.raw, kind.name()));
                    }
                    let nt = boundary(want, kind);
                    Ok((nt, if nt { "result-near-range-edge" } else { "ok" }))
                }
                Ok(other) => Err(format!("{}: unexpected output shape {other:?}", op.name)),
                Err(e) => {
                    if inr {
                        return Err(format!("{}({}) = Err({e:?}) although the exact result {want} is inside the range of {}", op.name, describe_args(args), kind.name()));
                    }
                    Ok((true, "error-out-of-range"))
                }
            }
        }
        Model::Int(want) => match got {
            Ok(Out::I32(x)) if x as i128 == want => Ok((false, "ok")),
            other => Err(format!("{}({}) = {other:?}, exact arithmetic gives {want}", op.name, describe_args(args))),
        },
        Model::None => Err("operation has no linear model".into()),
    }
}

/// Inversion laws checked through the library itself.
/// kind 0: timestamp x, interval i;  1: timestamps a, b;  2: date d, days k;  3: dates a, b
/// 4: ym a, b;  5: dt a, b
pub fn check_law(kind: i128, a: i128, b: i128) -> Result<bool, String> {
    guarded(|| -> Result<bool, String> {
        match kind {
            0 => {
                let (x, i) = (ad::ts(a as i64), ad::dt(b as i64));
                match x.add_interval_dt(i) {
                    Ok(y) => {
                        if y.sub_interval_dt(i).ok() != Some(x) {
                            return Err(format!("(x+i)-i != x for x={a}, i={b}"));
                        }
                        if y.sub_timestamp(x) != i {
                            return Err(format!("(x+i)-x != i for x={a}, i={b}"));
                        }
                        Ok(true)
                    }
                    Err(_) => Ok(false),
                }
            }
            1 => {
                let (x, y) = (ad::ts(a as i64), ad::ts(b as i64));
                if x.sub_timestamp(y) != -(y.sub_timestamp(x)) {
                    return Err(format!("a-b != -(b-a) for timestamps {a}, {b}"));
                }
                match y.add_interval_dt(x.sub_timestamp(y)) {
                    Ok(z) if z == x => Ok(true),
                    other => Err(format!("b+(a-b) = {:?}, expected a for timestamps a={a}, b={b}", other.map(|t| t.usecs()))),
                }
            }
            2 => {
                let d = ad::date(a as i32);
                let k = b as i32;
                match d.add_days(k) {
                    Ok(e) => {
                        if e.sub_days(k).ok() != Some(d) || e.sub_date(d) as i128 != b {
                            return Err(format!("(d+k)-k != d or (d+k)-d != k for d={a}, k={b}"));
                        }
                        Ok(true)
                    }
                    Err(_) => Ok(false),
                }
            }
            3 => {
                let (x, y) = (ad::date(a as i32), ad::date(b as i32));
                if x.sub_date(y) != -(y.sub_date(x)) {
                    return Err(format!("a-b != -(b-a) for dates {a}, {b}"));
                }
                Ok(true)
            }
            4 => {
                let (x, y) = (ad::ym(a as i32), ad::ym(b as i32));
                match x.add_interval_ym(y) {
                    Ok(z) => {
                        if z.sub_interval_ym(y).ok() != Some(x) {
                            return Err(format!("(x+i)-i != x for ym {a}, {b}"));
                        }
                        Ok(true)
                    }
                    Err(_) => Ok(false),
                }
            }
            5 => {
                let (x, y) = (ad::dt(a as i64), ad::dt(b as i64));
                match x.add_interval_dt(y) {
                    Ok(z) => {
                        if z.sub_interval_dt(y).ok() != Some(x) {
                            return Err(format!("(x+i)-i != x for dt {a}, {b}"));
                        }
                        Ok(true)
                    }
                    Err(_) => Ok(false),
                }
            }
            _ => Err("unknown law".into()),
        }
    })
    .unwrap_or_else(|p| Err(p))
}

/// `Timestamp::add_days` / `sub_days` against the dyadic model. `sub`: use sub_days.
pub fn check_add_days(x: i128, days: f64, sub: bool) -> Result<(bool, &'static str), String> {
    let eff = if sub { -days } else { days };
    let off = day_offset(eff, US_PER_DAY);
    let got = guarded(|| {
        let t = ad::ts(x as i64);
        if sub {
            t.sub_days(days)
        } else {
            t.add_days(days)
        }
    })
    .map_err(|p| format!("Timestamp({x}).{}({days:e}): {p}", if sub { "sub_days" } else { "add_days" }))?;
    let name = if sub { "sub_days" } else { "add_days" };
    match off {
        Offset::Nan => match got {
            Err(_) => Ok((true, "nan-offset")),
            Ok(v) => Err(format!("Timestamp({x}).{name}(NaN) = Ok({}), expected an error", v.usecs())),
        },
        Offset::Infinite => match got {
            Err(_) => Ok((true, "infinite-offset")),
            Ok(v) => Err(format!("Timestamp({x}).{name}({days:e}) = Ok({}), expected an error (offset not finite)", v.usecs())),
        },
        Offset::Finite { lo, hi, exact } => {
            let (rlo, rhi) = (x.saturating_add(lo), x.saturating_add(hi));
            let any_in = rhi >= ts_min() && rlo <= ts_max();
            let all_in = rlo >= ts_min() && rhi <= ts_max();
            match got {
                Ok(v) => {
                    let r = v.usecs() as i128;
                    if r < rlo || r > rhi {
                        return Err(format!(
                            "Timestamp({x}).{name}({days:e} [bits {:#x}]) = {r} (offset {}), admissible offsets are {lo}..={hi}{}",
                            days.to_bits(),
                            r - x,
                            if exact { " (product exactly representable: round to nearest microsecond)" } else { "" }
                        ));
                    }
                    if !ts_in_range(r) {
                        return Err(format!("Timestamp({x}).{name}({days:e}) = Ok({r}) outside the timestamp range"));
                    }
                    let frac = exact && lo == hi && eff.fract() != 0.0;
                    let near = (r - ts_min()).abs() <= US_PER_DAY || (r - ts_max()).abs() <= US_PER_DAY;
                    Ok((near || frac, if lo != hi { "inexact-product-or-tie" } else if frac { "fractional-days-exact" } else { "whole-days" }))
                }
                Err(e) => {
                    if all_in {
                        return Err(format!("Timestamp({x}).{name}({days:e}) = Err({e:?}) although every admissible result {rlo}..={rhi} is inside the range"));
                    }
                    let _ = any_in;
                    Ok((true, "error-out-of-range"))
                }
            }
        }
    }
}

pub fn find_op<'a>(ops: &'a [Op], name: &str) -> Option<&'a Op> {
    ops.iter().find(|o| o.name == name)
}

/// the difference of two Oracle-style dates in days: the exact microsecond difference over
/// 86_400_000_000, to double precision, and antisymmetric
pub fn check_ora_diff(a: i128, b: i128) -> Result<(), String> {
    let (r, q) = guarded(|| (ad::ora(a as i64).sub_date(ad::ora(b as i64)), ad::ora(b as i64).sub_date(ad::ora(a as i64))))?;
    let exact = a - b;
    let tol = exact.abs() as f64 * f64::EPSILON * 2.0 + 0.5;
    if !r.is_finite() || (r * US_PER_DAY as f64 - exact as f64).abs() > tol {
        return Err(format!("OracleDate({a}).sub_date(OracleDate({b})) = {r} days, the exact difference is {exact} us = {} days", exact as f64 / US_PER_DAY as f64));
    }
    if q != -r {
        return Err(format!("OracleDate difference is not antisymmetric: a-b = {r}, b-a = {q} (a = {a}, b = {b})"));
    }
    Ok(())
}

pub fn eval(case: &Case) -> Verdict {
    let r: Result<(), String> = match case.kind.as_str() {
        "linear" => {
            let ops = linear_ops();
            match find_op(&ops, &case.s[0]) {
                None => Err(format!("unknown op {}", case.s[0])),
                Some(op) => {
                    let args: Vec<Arg> = op.args.iter().zip(case.i.iter()).map(|(k, x)| arg_from_i128(*k, *x)).collect();
                    if !args_valid(&args) {
                        Err("replay case has an out-of-range operand".into())
                    } else {
                        judge_linear(op, &args).map(|_| ())
                    }
                }
            }
        }
        "law" => check_law(case.i[0], case.i[1], case.i[2]).map(|_| ()),
        "add_days" => check_add_days(case.i[0], i2f(case.i[1]), case.i[2] != 0).map(|_| ()),
        "ora_add_days" => super::c16::check_add_days(case.i[0] as u8, case.i[1], i2f(case.i[2])).map(|_| ()),
        "ora_add_dt" => super::c16::check_add_dt(case.i[0], case.i[1], case.i[2] != 0),
        "ora_diff" => check_ora_diff(case.i[0], case.i[1]),
        k => Err(format!("unknown case kind {k}")),
    };
    match r {
        Ok(()) => Verdict::Pass,
        Err(m) => Verdict::Fail(m),
    }
}

fn is_boundary_arg(a: &Arg, edge_sets: &std::collections::HashMap<Kind, std::collections::HashSet<i128>>) -> bool {
    match a {
        Arg::V(v) => edge_sets.get(&v.kind).map(|s| s.contains(&v.raw)).unwrap_or(false),
        _ => true,
    }
}

pub fn run(ctx: &Ctx) -> (Stats, Report) {
    let mut st = Stats::new();
    let mut mark = (0, 0);
    run_replays(P, &mut st, &eval);
    st.section("replays", &mut mark);
    let seed = ctx.seed;
    let ops = linear_ops();

    // E1: pool cross products
    for (oi, op) in ops.iter().enumerate() {
        let pools_: Vec<Vec<Arg>> = op
            .args
            .iter()
            .enumerate()
            .map(|(k, ak)| arg_pool(*ak, seed, if k == 0 || ctx.thorough { PoolSize::Full } else { PoolSize::Small }))
            .collect();
        let total: u64 = pools_.iter().map(|p| p.len() as u64).product();
        let s = par_sweep(total, 8192, |range, st| {
            for idx in range {
                let mut rem = idx;
                let mut args = Vec::with_capacity(pools_.len());
                for p in pools_.iter().rev() {
                    args.push(p[(rem % p.len() as u64) as usize]);
                    rem /= p.len() as u64;
                }
                args.reverse();
                st.evaluations += 1;
                match judge_linear(op, &args) {
                    Ok((nt, class)) => {
                        st.class(class);
                        if nt {
                            st.fps.push(hash_ints(oi as u64, &args.iter().map(arg_to_i128).collect::<Vec<_>>()));
                            let key = mix64(seed ^ mix64(idx ^ ((oi as u64) << 40)));
                            if key < st.sample_threshold() {
                                st.sample(key, || json!({"op": op.name, "args": describe_args(&args), "class": class}));
                            }
                        }
                    }
                    Err(m) => {
                        st.fail(idx, Case::new(P, "linear", args.iter().map(arg_to_i128).collect(), vec![op.name.to_string()]), m);
                        return;
                    }
                }
            }
        });
        st.merge(s);
    }
    st.section("linear_ops_pool_cross_product", &mut mark);

    // E2: random operands through proptest
    let cases = if ctx.thorough { 8_000_000 } else { 600_000 };
    let mut edge_sets = std::collections::HashMap::new();
    for k in crate::model::text::KINDS {
        edge_sets.insert(k, pools::pool(k, seed, 0).into_iter().map(|v| v.raw).collect::<std::collections::HashSet<_>>());
    }
    for (oi, op) in ops.iter().enumerate() {
        if op.args.len() > 2 {
            continue;
        }
        let strat_for = |k: ArgKind| -> BoxedStrategy<i128> {
            match k {
                ArgKind::K(kind) => strat::raw(kind),
                ArgKind::I32 => strat::any_i32().prop_map(|x| x as i128).boxed(),
                ArgKind::I64 => prop_oneof![any::<i64>().prop_map(|x| x as i128), (0..ops_i64().len()).prop_map(|i| ops_i64()[i])].boxed(),
                ArgKind::U32 => any::<u32>().prop_map(|x| x as i128).boxed(),
                ArgKind::F64 => strat::any_f64().prop_map(f2i).boxed(),
            }
        };
        let a0 = op.args[0];
        let a1 = op.args.get(1).copied();
        let es = &edge_sets;
        let s = pt_run(
            &format!("C08/{}", op.name),
            seed,
            cases / THREADS as u32 + 1,
            THREADS,
            || (strat_for(a0), match a1 { Some(k) => strat_for(k), None => Just(0i128).boxed() }),
            |(x, y): &(i128, i128), st: &mut Stats| {
                let mut args = vec![arg_from_i128(a0, *x)];
                if let Some(k) = a1 {
                    args.push(arg_from_i128(k, *y));
                }
                st.evaluations += 1;
                let (nt, class) = judge_linear(op, &args)?;
                st.class(class);
                if nt || args.iter().all(|a| is_boundary_arg(a, es)) {
                    st.fps.push(hash_ints(oi as u64, &[*x, *y]));
                }
                if st.evaluations % 997 == 0 {
                    let key = mix64(seed ^ hash_ints(oi as u64, &[*x, *y]));
                    st.sample(key | (1 << 63), || json!({"op": op.name, "args": describe_args(&args), "class": class, "generator": "proptest"}));
                }
                Ok(())
            },
            |(x, y): &(i128, i128)| {
                let mut i = vec![*x];
                if a1.is_some() {
                    i.push(*y);
                }
                Case::new(P, "linear", i, vec![op.name.to_string()])
            },
        );
        st.merge(s);
    }
    st.section("linear_ops_random_operands", &mut mark);

    // laws
    let tsp = pools::ts_pool_small(seed, if ctx.thorough { 800 } else { 120 });
    let dtp = pools::dt_pool(seed, if ctx.thorough { 800 } else { 120 });
    let dp = pools::date_pool(seed, 100);
    let i32p = pools::i32_scalars();
    let ymp = pools::ym_pool(seed, 60);
    let mut law_cases: Vec<(i128, i128, i128)> = vec![];
    for &x in &tsp {
        for &i in &dtp {
            law_cases.push((0, x, i));
        }
        for &y in &tsp {
            law_cases.push((1, x, y));
        }
    }
    for &d in &dp {
        for &k in &i32p {
            law_cases.push((2, d, k));
        }
    }
    for (k, &a) in dp.iter().enumerate() {
        for j in 0..8 {
            law_cases.push((3, a, dp[(k * 7 + j * 13) % dp.len()]));
        }
    }
    for &a in &ymp {
        for &b in &ymp {
            law_cases.push((4, a, b));
        }
    }
    for &a in &dtp {
        for &b in &dtp {
            law_cases.push((5, a, b));
        }
    }
    let s = par_sweep(law_cases.len() as u64, 4096, |range, st| {
        for k in range {
            let (kind, a, b) = law_cases[k as usize];
            st.evaluations += 1;
            match check_law(kind, a, b) {
                Ok(true) => {
                    st.class("law-intermediate-exists");
                    st.fps.push(hash_ints(0x1a3, &[kind, a, b]));
                }
                Ok(false) => st.class("law-intermediate-out-of-range"),
                Err(m) => {
                    st.fail(k, Case::new(P, "law", vec![kind, a, b], vec![]), m);
                    return;
                }
            }
        }
    });
    st.merge(s);
    // the Oracle-style date + / - day-time interval: the exact sum floored to the second
    let orap = pools::ora_pool_small(seed, if ctx.thorough { 200 } else { 40 });
    let dtfull = pools::dt_pool(seed, if ctx.thorough { 2000 } else { 300 });
    let s = par_sweep((orap.len() * dtfull.len()) as u64, 4096, |range, st| {
        for k in range {
            let (x, i) = (orap[k as usize / dtfull.len()], dtfull[k as usize % dtfull.len()]);
            for sub in [false, true] {
                st.evaluations += 1;
                st.fps.push(hash_ints(0x8c, &[x, i, sub as i128]));
                if let Err(m) = super::c16::check_add_dt(x, i, sub) {
                    st.fail(k, Case::new(P, "ora_add_dt", vec![x, i, sub as i128], vec![]), m);
                    return;
                }
            }
        }
    });
    st.merge(s);
    // the difference of two Oracle-style dates (a number of days): every pool pair, and for every
    // pair the second operand moved to the first one's time of day (whole-day differences)
    let orad = pools::ora_pool_small(seed, if ctx.thorough { 400 } else { 120 });
    let s = par_sweep((orad.len() * orad.len()) as u64, 4096, |range, st| {
        for k in range {
            let (a, b) = (orad[k as usize / orad.len()], orad[k as usize % orad.len()]);
            let b2 = b - b.rem_euclid(US_PER_DAY) + a.rem_euclid(US_PER_DAY);
            for (y, same_tod) in [(b, false), (b2, true)] {
                if !ts_in_range(y) {
                    continue;
                }
                st.evaluations += 1;
                st.fps.push(hash_ints(0x0d1f, &[a, y]));
                if same_tod && a.rem_euclid(US_PER_DAY) != 0 {
                    st.class(if (a < 0) != (y < 0) { "oracle-difference-equal-time-of-day-across-1970" } else { "oracle-difference-equal-time-of-day" });
                }
                if let Err(m) = check_ora_diff(a, y) {
                    st.fail(k, Case::new(P, "ora_diff", vec![a, y], vec![]), m);
                    return;
                }
            }
        }
    });
    st.merge(s);
    st.section("inversion_laws", &mut mark);

    // add_days / sub_days: pool cross product
    let tsf = pools::ts_pool_small(seed, 40);
    let mut fs = pools::f64_scalars();
    for &x in &tsf {
        for lim in [ts_min(), ts_max()] {
            // offsets that land exactly on / next to a range end
            let d = (lim - x) as f64 / US_PER_DAY as f64;
            for k in [-2i64, -1, 0, 1, 2] {
                fs.push(f64::from_bits((d.to_bits() as i64 + k) as u64));
            }
        }
    }
    for us in [1i64, 2, 3, 499_999, 500_000, 500_001, 86_399_999_999, 86_400_000_001, 123_456_789_012] {
        for half in [0.0, 0.25, 0.5, 0.75] {
            let v = (us as f64 + half) / US_PER_DAY as f64;
            fs.push(v);
            fs.push(-v);
        }
    }
    fs.extend(near_tie_days(seed, 400));
    let total = tsf.len() as u64 * fs.len() as u64 * 2;
    let s = par_sweep(total, 2048, |range, st| {
        for idx in range {
            let sub = idx % 2 == 1;
            let k = idx / 2;
            let x = tsf[(k / fs.len() as u64) as usize];
            let f = fs[(k % fs.len() as u64) as usize];
            st.evaluations += 1;
            match check_add_days(x, f, sub) {
                Ok((nt, class)) => {
                    st.class(class);
                    if nt {
                        st.fps.push(hash_ints(0xadd, &[x, f2i(f), sub as i128]));
                        let key = mix64(seed ^ mix64(idx ^ 0xadd0));
                        if key < st.sample_threshold() {
                            st.sample(key, || json!({"op": if sub {"Timestamp.sub_days"} else {"Timestamp.add_days"}, "timestamp_us": x.to_string(), "days": f, "class": class}));
                        }
                    }
                }
                Err(m) => {
                    st.fail(idx, Case::new(P, "add_days", vec![x, f2i(f), sub as i128], vec![]), m);
                    return;
                }
            }
        }
    });
    st.merge(s);
    // the Oracle-style variants share the microsecond rounding (then round to the second)
    let mut ofs = super::c16::half_second_offsets();
    ofs.extend(near_tie_days(seed, 100));
    let s = par_sweep((tsf.len() * ofs.len() * 4) as u64, 2048, |range, st| {
        for idx in range {
            let which = (idx % 4) as u8;
            let k = idx / 4;
            let x = tsf[k as usize / ofs.len()];
            let f = ofs[k as usize % ofs.len()];
            st.evaluations += 1;
            match super::c16::check_add_days(which, x, f) {
                Ok((nt, class)) => {
                    st.class(class);
                    if nt {
                        st.fps.push(hash_ints(0xadd1, &[which as i128, x, f2i(f)]));
                    }
                }
                Err(m) => {
                    st.fail(idx, Case::new(P, "ora_add_days", vec![which as i128, x, f2i(f)], vec![]), m);
                    return;
                }
            }
        }
    });
    st.merge(s);
    st.section("add_days_pool_cross_product", &mut mark);

    // add_days random
    let s = pt_run(
        "C08/add_days",
        seed,
        (if ctx.thorough { 160_000_000 } else { 6_400_000 }) / THREADS as u32,
        THREADS,
        || (strat::raw(Kind::Ts), strat::any_f64(), any::<bool>()),
        |(x, f, sub): &(i128, f64, bool), st: &mut Stats| {
            st.evaluations += 1;
            let (nt, class) = check_add_days(*x, *f, *sub)?;
            st.class(class);
            if nt {
                st.fps.push(hash_ints(0xadd, &[*x, f2i(*f), *sub as i128]));
            }
            Ok(())
        },
        |(x, f, sub): &(i128, f64, bool)| Case::new(P, "add_days", vec![*x, f2i(*f), *sub as i128], vec![]),
    );
    st.merge(s);
    st.section("add_days_random", &mut mark);

    let rep = Report {
        rule: "Every linear operation of the operation table (37 rows: add/sub of days, times, day-time intervals, same-kind intervals, differences, raw-count constructors) x full cross products of boundary+seeded pools (E1), plus proptest-generated operands per row with shrinking (E2); the difference of two Oracle-style dates in days over all pool pairs, each also with the second operand moved to the first one's time of day; judged against i128 arithmetic on the raw counts with the biconditional Ok <=> exact result in range. Inversion laws x+i-i=x, (x+i)-x=i, a-b=-(b-a) through the library. Timestamp::add_days/sub_days against exact dyadic-rational arithmetic: the result offset must be an integer n with |n - days*86400e6| <= 1/2 + |days*86400e6|*2^-53, a single value when the product is exactly representable. Non-trivial = exact result within one unit period of a range edge, an error outcome, a fractional-day offset, or all operands from the boundary pool; distinct by fingerprint of (row, operands).".into(),
        assumptions: vec![
            "error kinds of the linear operations are not constrained by the statement: any Err is accepted when the exact result is out of range".into(),
            "add_days: NaN / infinite / overflowing offsets must be an error of any kind; ties and inexact double products admit both neighbouring microseconds".into(),
        ],
        exhaustive: false,
        extra: Default::default(),
    };
    (st, rep)
}

fn ops_i64() -> Vec<i128> {
    i64_scalars()
}

/// Day offsets j / 2^27 whose product with 86400e6 (= 2^11 * 3^3... * 10546875 * 2^2) is exactly
/// representable and has a fractional part of exactly (8192 + delta) / 16384 microseconds,
/// delta in -8..=8: values a hair away from a rounding tie, where truncation, floor or a
/// sloppy rounding differ from "nearest microsecond".
pub fn near_tie_days(seed: u64, n: usize) -> Vec<f64> {
    // 86400e6 / 2^13 = 10546875 (odd), so (j / 2^27) * 86400e6 = j * 10546875 / 2^14
    const ODD: u64 = 10_546_875;
    // inverse of ODD modulo 2^14 by Newton iteration
    let mut inv: u64 = 1;
    for _ in 0..6 {
        inv = inv.wrapping_mul(2u64.wrapping_sub(ODD.wrapping_mul(inv)));
    }
    inv &= 16383;
    debug_assert_eq!((ODD * inv) & 16383, 1);
    let mut sm = SplitMix(seed ^ 0x71e5);
    let mut v = vec![];
    for k in 0..n {
        let delta = (k % 17) as i64 - 8;
        let target = (8192 + delta) as u64 & 16383;
        let low = (target * inv) & 16383;
        let base = sm.below(40_000); // j < 6.6e8 keeps j * ODD below 2^53
        let j = base * 16384 + low;
        let d = j as f64 / (1u64 << 27) as f64;
        v.push(if k % 2 == 0 { d } else { -d });
    }
    v
}
