//! C15 – serialization round-trips and deserialization never yields an out-of-range value.

use crate::adapter::{self as ad, LibVal};
use crate::engine::*;
use crate::model::cal::*;
use crate::model::text::*;
use crate::pools;
use crate::strat;
use serde_json::json;
use sqldatetime::{Date, IntervalDT, IntervalYM, OracleDate, Time, Timestamp};

const P: &str = "C15";
const OPNAMES: [&str; 7] = ["json to_string", "json to a too-small writer", "bincode serialize", "bincode into a too-small writer", "json from perturbed string", "json from valid string", "json to_value"];

pub fn layout(kind: Kind) -> &'static str {
    match kind {
        Kind::Date => "YYYY-MM-DD",
        Kind::Time => "HH24:MI:SS.FF6",
        Kind::Ts => "YYYY-MM-DD HH24:MI:SS.FF6",
        Kind::Ora => "YYYY-MM-DD HH24:MI:SS",
        Kind::YM => "YYYY-MM",
        Kind::DT => "DD HH24:MI:SS.FF6",
    }
}

fn to_json(v: &LibVal) -> Result<String, String> {
    match v {
        LibVal::Date(x) => serde_json::to_string(x),
        LibVal::Time(x) => serde_json::to_string(x),
        LibVal::Ts(x) => serde_json::to_string(x),
        LibVal::Ora(x) => serde_json::to_string(x),
        LibVal::YM(x) => serde_json::to_string(x),
        LibVal::DT(x) => serde_json::to_string(x),
    }
    .map_err(|e| e.to_string())
}

fn from_json(kind: Kind, s: &str) -> Result<Val, String> {
    match kind {
        Kind::Date => serde_json::from_str::<Date>(s).map(|x| LibVal::Date(x).to_val()),
        Kind::Time => serde_json::from_str::<Time>(s).map(|x| LibVal::Time(x).to_val()),
        Kind::Ts => serde_json::from_str::<Timestamp>(s).map(|x| LibVal::Ts(x).to_val()),
        Kind::Ora => serde_json::from_str::<OracleDate>(s).map(|x| LibVal::Ora(x).to_val()),
        Kind::YM => serde_json::from_str::<IntervalYM>(s).map(|x| LibVal::YM(x).to_val()),
        Kind::DT => serde_json::from_str::<IntervalDT>(s).map(|x| LibVal::DT(x).to_val()),
    }
    .map_err(|e| e.to_string())
}

fn to_bin(v: &LibVal) -> Result<Vec<u8>, String> {
    match v {
        LibVal::Date(x) => bincode::serialize(x),
        LibVal::Time(x) => bincode::serialize(x),
        LibVal::Ts(x) => bincode::serialize(x),
        LibVal::Ora(x) => bincode::serialize(x),
        LibVal::YM(x) => bincode::serialize(x),
        LibVal::DT(x) => bincode::serialize(x),
    }
    .map_err(|e| e.to_string())
}

fn from_bin(kind: Kind, b: &[u8]) -> Result<Val, String> {
    match kind {
        Kind::Date => bincode::deserialize::<Date>(b).map(|x| LibVal::Date(x).to_val()),
        Kind::Time => bincode::deserialize::<Time>(b).map(|x| LibVal::Time(x).to_val()),
        Kind::Ts => bincode::deserialize::<Timestamp>(b).map(|x| LibVal::Ts(x).to_val()),
        Kind::Ora => bincode::deserialize::<OracleDate>(b).map(|x| LibVal::Ora(x).to_val()),
        Kind::YM => bincode::deserialize::<IntervalYM>(b).map(|x| LibVal::YM(x).to_val()),
        Kind::DT => bincode::deserialize::<IntervalDT>(b).map(|x| LibVal::DT(x).to_val()),
    }
    .map_err(|e| e.to_string())
}

/// other configurations of the binary format: variable-length integers (where signed and
/// unsigned, and every width, are encoded differently, so the writer and the reader must name
/// the same integer type) and big-endian fixed width
fn bin_roundtrip_alt(v: &LibVal, route: u8) -> Result<Val, String> {
    use bincode::Options;
    macro_rules! rt {
        ($x:expr, $t:ty, $wrap:path) => {{
            let r: Result<$t, bincode::Error> = match route {
                0 => bincode::DefaultOptions::new().serialize($x).and_then(|b| bincode::DefaultOptions::new().deserialize::<$t>(&b)),
                _ => bincode::DefaultOptions::new().with_big_endian().with_fixint_encoding().serialize($x).and_then(|b| bincode::DefaultOptions::new().with_big_endian().with_fixint_encoding().deserialize::<$t>(&b)),
            };
            r.map(|x| $wrap(x).to_val())
        }};
    }
    match v {
        LibVal::Date(x) => rt!(x, Date, LibVal::Date),
        LibVal::Time(x) => rt!(x, Time, LibVal::Time),
        LibVal::Ts(x) => rt!(x, Timestamp, LibVal::Ts),
        LibVal::Ora(x) => rt!(x, OracleDate, LibVal::Ora),
        LibVal::YM(x) => rt!(x, IntervalYM, LibVal::YM),
        LibVal::DT(x) => rt!(x, IntervalDT, LibVal::DT),
    }
    .map_err(|e| e.to_string())
}

fn raw_bytes(kind: Kind, raw: i128) -> Vec<u8> {
    match kind {
        Kind::Date | Kind::YM => (raw as i32).to_le_bytes().to_vec(),
        _ => (raw as i64).to_le_bytes().to_vec(),
    }
}

pub fn check_roundtrip(kind: Kind, raw: i128) -> Result<(), String> {
    let v = Val::new(kind, raw);
    let lv = ad::to_lib(&v).map_err(|e| format!("value rejected: {e:?}"))?;
    guarded(|| -> Result<(), String> {
        let js = to_json(&lv).map_err(|e| format!("serde_json::to_string failed: {e}"))?;
        let want = format!("\"{}\"", render(&v, &tokenize(layout(kind)).unwrap()).unwrap().text);
        if js != want {
            return Err(format!("JSON form is {js}, the fixed layout {} gives {want}", layout(kind)));
        }
        match from_json(kind, &js) {
            Ok(b) if b == v => {}
            other => return Err(format!("JSON {js} deserializes to {other:?}, expected {raw}")),
        }
        let bin = to_bin(&lv).map_err(|e| format!("bincode::serialize failed: {e}"))?;
        if bin != raw_bytes(kind, raw) {
            return Err(format!("binary form is {bin:?}, expected the little-endian raw count {:?}", raw_bytes(kind, raw)));
        }
        match from_bin(kind, &bin) {
            Ok(b) if b == v => {}
            other => return Err(format!("binary form deserializes to {other:?}, expected {raw}")),
        }
        for route in 0..2u8 {
            match bin_roundtrip_alt(&lv, route) {
                Ok(b) if b == v => {}
                other => return Err(format!("binary round trip through bincode with {} gives {other:?}, expected {raw}", ["variable-length integers", "big-endian fixed-width integers"][route as usize])),
            }
        }
        Ok(())
    })
    .unwrap_or_else(|p| Err(p))
    .map_err(|m| format!("{} {raw} ({}): {m}", kind.name(), super::c05::show(kind, raw)))
}

/// Any binary payload: an error, or a value inside the documented range.
pub fn check_decode_bin(kind: Kind, payload: i128) -> Result<bool, String> {
    let bytes = raw_bytes(kind, payload);
    let r = guarded(|| from_bin(kind, &bytes)).map_err(|p| format!("bincode::deserialize::<{}>({payload}): {p}", kind.name()))?;
    match r {
        Err(_) => Ok(false),
        Ok(v) => {
            if !ad::in_range(&v) {
                return Err(format!(
                    "bincode::deserialize::<{}>(raw count {payload}) = Ok({}), which is outside the documented range{}",
                    kind.name(),
                    v.raw,
                    if kind == Kind::Ora { " / not a whole second" } else { "" }
                ));
            }
            if v.raw != payload {
                return Err(format!("bincode::deserialize::<{}>(raw count {payload}) = Ok({})", kind.name(), v.raw));
            }
            Ok(true)
        }
    }
}

pub const INT_WIDTHS: [&str; 10] = ["i8", "i16", "i32", "i64", "i128", "u8", "u16", "u32", "u64", "u128"];

/// An integer handed to the type's `Deserialize` by a deserializer that reports it in the given
/// width (serde's own `de::value` deserializers, as self-describing formats do): an error, or the
/// value whose raw count IS that integer - never a wrapped / truncated image of it.
pub fn check_decode_int(kind: Kind, payload: i128, width: usize) -> Result<bool, String> {
    use serde::de::value::*;
    use serde::de::IntoDeserializer;
    use serde::Deserialize;
    type E = serde::de::value::Error;
    macro_rules! via {
        ($d:expr) => {
            match kind {
                Kind::Date => Date::deserialize($d).map(|x| LibVal::Date(x).to_val()),
                Kind::Time => Time::deserialize($d).map(|x| LibVal::Time(x).to_val()),
                Kind::Ts => Timestamp::deserialize($d).map(|x| LibVal::Ts(x).to_val()),
                Kind::Ora => OracleDate::deserialize($d).map(|x| LibVal::Ora(x).to_val()),
                Kind::YM => IntervalYM::deserialize($d).map(|x| LibVal::YM(x).to_val()),
                Kind::DT => IntervalDT::deserialize($d).map(|x| LibVal::DT(x).to_val()),
            }
        };
    }
    let w = width % INT_WIDTHS.len();
    // the integer actually denoted: the payload narrowed to the width
    let denoted: i128 = match w {
        0 => payload as i8 as i128,
        1 => payload as i16 as i128,
        2 => payload as i32 as i128,
        3 => payload as i64 as i128,
        4 => payload,
        5 => payload as u8 as i128,
        6 => payload as u16 as i128,
        7 => payload as u32 as i128,
        8 => payload as u64 as i128,
        _ => payload & i128::MAX, // u128 below 2^127
    };
    let r: Result<Result<Val, E>, String> = guarded(|| match w {
        0 => via!(IntoDeserializer::<E>::into_deserializer(denoted as i8)),
        1 => via!(IntoDeserializer::<E>::into_deserializer(denoted as i16)),
        2 => via!(IntoDeserializer::<E>::into_deserializer(denoted as i32)),
        3 => via!(IntoDeserializer::<E>::into_deserializer(denoted as i64)),
        4 => via!(IntoDeserializer::<E>::into_deserializer(denoted)),
        5 => via!(IntoDeserializer::<E>::into_deserializer(denoted as u8)),
        6 => via!(IntoDeserializer::<E>::into_deserializer(denoted as u16)),
        7 => via!(IntoDeserializer::<E>::into_deserializer(denoted as u32)),
        8 => via!(IntoDeserializer::<E>::into_deserializer(denoted as u64)),
        _ => via!(IntoDeserializer::<E>::into_deserializer(denoted as u128)),
    });
    let _: Option<I8Deserializer<E>> = None;
    match r.map_err(|p| format!("{}::deserialize({} {denoted}): {p}", kind.name(), INT_WIDTHS[w]))? {
        Err(_) => Ok(false),
        Ok(v) => {
            if !ad::in_range(&v) {
                return Err(format!("{}::deserialize({} {denoted}) = Ok({}), which is outside the documented range", kind.name(), INT_WIDTHS[w], v.raw));
            }
            if v.raw != denoted {
                return Err(format!("{}::deserialize({} {denoted}) = Ok({}): a wrapped / truncated image of the integer, expected an error (or the value {denoted} itself)", kind.name(), INT_WIDTHS[w], v.raw));
            }
            Ok(true)
        }
    }
}

pub fn check_decode_json(kind: Kind, payload: &str) -> Result<bool, String> {
    let r = guarded(|| from_json(kind, payload)).map_err(|p| format!("serde_json::from_str::<{}>({payload:?}): {p}", kind.name()))?;
    match r {
        Err(_) => Ok(false),
        Ok(v) => {
            if !ad::in_range(&v) {
                return Err(format!("serde_json::from_str::<{}>({payload}) = Ok({}), outside the documented range", kind.name(), v.raw));
            }
            Ok(true)
        }
    }
}

/// One step of a serialization history. op: 0 JSON to_string, 1 JSON into a writer that is too
/// small (must fail), 2 bincode serialize, 3 bincode into a writer that is too small (must
/// fail), 4 JSON from a perturbed string, 5 JSON from the valid string, 6 serde_json::to_value.
pub fn history_step(op: u8, kind: Kind, raw: i128, aux: u32) -> Result<(), String> {
    let v = Val::new(kind, raw);
    let lv = ad::to_lib(&v).map_err(|e| format!("value rejected: {e:?}"))?;
    let text = render(&v, &tokenize(layout(kind)).unwrap()).unwrap().text;
    let quoted = format!("\"{text}\"");
    macro_rules! with_val {
        ($x:ident => $body:expr) => {
            match &lv {
                LibVal::Date($x) => $body,
                LibVal::Time($x) => $body,
                LibVal::Ts($x) => $body,
                LibVal::Ora($x) => $body,
                LibVal::YM($x) => $body,
                LibVal::DT($x) => $body,
            }
        };
    }
    guarded(|| -> Result<(), String> {
        match op % 7 {
            0 => {
                let js = to_json(&lv).map_err(|e| format!("to_string failed: {e}"))?;
                if js != quoted {
                    return Err(format!("JSON form of {} {raw} is {js}, expected {quoted}", kind.name()));
                }
            }
            1 => {
                let cap = (aux % 9) as usize;
                let mut buf = vec![0u8; cap];
                let r = with_val!(x => serde_json::to_writer(&mut buf[..], x));
                if r.is_ok() {
                    return Err(format!("serde_json::to_writer into {cap} bytes succeeded for {quoted}"));
                }
            }
            2 => {
                let b = to_bin(&lv).map_err(|e| format!("bincode failed: {e}"))?;
                if b != raw_bytes(kind, raw) {
                    return Err(format!("binary form of {} {raw} is {b:?}", kind.name()));
                }
            }
            3 => {
                let cap = (aux % 4) as usize;
                let mut buf = vec![0u8; cap];
                let r = with_val!(x => bincode::serialize_into(&mut buf[..], x));
                if r.is_ok() {
                    return Err(format!("bincode::serialize_into {cap} bytes succeeded for {} {raw}", kind.name()));
                }
            }
            4 => {
                let mut sm = SplitMix(aux as u64 ^ raw as u64);
                let payload = format!("\"{}\"", mutate(&text, &mut sm).replace('\\', "\\\\").replace('"', "\\\""));
                check_decode_json(kind, &payload)?;
            }
            5 => match from_json(kind, &quoted) {
                Ok(b) if b == v => {}
                other => return Err(format!("JSON {quoted} deserializes to {other:?}, expected {raw}")),
            },
            _ => {
                let val = with_val!(x => serde_json::to_value(x)).map_err(|e| format!("to_value failed: {e}"))?;
                if val != serde_json::Value::String(text.clone()) {
                    return Err(format!("serde_json::to_value of {} {raw} is {val}, expected the string {text:?}", kind.name()));
                }
            }
        }
        Ok(())
    })
    .unwrap_or_else(|p| Err(p))
}

/// A history: steps executed in order on one thread; every step must behave as it would alone.
pub fn check_history(steps: &[(u8, usize, i128, u32)]) -> Result<(), String> {
    for (k, (op, ki, raw, aux)) in steps.iter().enumerate() {
        history_step(*op, KINDS[*ki % 6], *raw, *aux).map_err(|m| format!("step {k} of the history {:?}: {m}", steps.iter().map(|s| (s.0 % 7, KINDS[s.1 % 6].name(), s.2)).collect::<Vec<_>>()))?;
    }
    Ok(())
}

/// Concurrent histories: `threads` threads, each walking its own few days (mostly staying on a
/// day, sometimes switching) and round-tripping every value twice. Values never shared between
/// threads, so any disagreement comes from state the library shares between calls.
/// Failure is schedule-dependent: a replay re-runs the same stress, it cannot pin the interleaving.
pub fn check_concurrent(seed: u64, threads: usize, iters: u64) -> Result<u64, String> {
    let c = cal();
    let start = std::sync::Barrier::new(threads);
    let stop = std::sync::atomic::AtomicBool::new(false);
    let results: Vec<Result<u64, String>> = std::thread::scope(|sc| {
        let hs: Vec<_> = (0..threads)
            .map(|t| {
                let (start, stop) = (&start, &stop);
                sc.spawn(move || -> Result<u64, String> {
                    let mut sm = SplitMix(seed ^ mix64(0xc15c ^ t as u64));
                    let days: Vec<i128> = (0..3).map(|_| c.first as i128 + sm.below(c.len() as u64) as i128).collect();
                    let mut day = days[0];
                    let mut done = 0u64;
                    start.wait();
                    for _ in 0..iters {
                        if stop.load(std::sync::atomic::Ordering::Relaxed) {
                            break;
                        }
                        if sm.below(4) == 0 {
                            day = days[sm.below(3) as usize];
                        }
                        let sec = sm.below(86_400) as i128;
                        let (kind, raw) = match sm.below(8) {
                            0 => (Kind::Date, day),
                            1 => (Kind::Ts, day * US_PER_DAY + sec * US_PER_SEC + sm.below(1_000_000) as i128),
                            2 => (Kind::Time, sec * US_PER_SEC + sm.below(1_000_000) as i128),
                            3 => (Kind::DT, (day * US_PER_DAY + sec * US_PER_SEC) * if sec % 2 == 0 { 1 } else { -1 }),
                            4 => (Kind::YM, day * 37 % 2_136_000_000),
                            _ => (Kind::Ora, day * US_PER_DAY + sec * US_PER_SEC),
                        };
                        for round in 0..2 {
                            if let Err(m) = check_roundtrip(kind, raw) {
                                stop.store(true, std::sync::atomic::Ordering::Relaxed);
                                return Err(format!("thread {t} of {threads}, {} round of the same value: {m}", if round == 0 { "first" } else { "second" }));
                            }
                        }
                        done += 2;
                    }
                    Ok(done)
                })
            })
            .collect();
        hs.into_iter().map(|h| h.join().unwrap_or_else(|_| Err("a worker thread panicked".into()))).collect()
    });
    let mut total = 0;
    for r in results {
        total += r?;
    }
    Ok(total)
}

pub fn eval(case: &Case) -> Verdict {
    if case.kind == "history" {
        let steps: Vec<(u8, usize, i128, u32)> = case.i.chunks(4).map(|c| (c[0] as u8, c[1] as usize, c[2], c[3] as u32)).collect();
        return match check_history(&steps) {
            Ok(()) => Verdict::Pass,
            Err(m) => Verdict::Fail(m),
        };
    }
    if case.kind == "concurrent" {
        // several repetitions: the interleaving is not pinned by the replay file
        for rep in 0..8u64 {
            if let Err(m) = check_concurrent(case.i[0] as u64 ^ rep, case.i[1] as usize, case.i[2] as u64) {
                return Verdict::Fail(m);
            }
        }
        return Verdict::Pass;
    }
    let kind = Kind::from_index(case.i[0] as usize);
    let r = match case.kind.as_str() {
        "roundtrip" => check_roundtrip(kind, case.i[1]),
        "decode_bin" => check_decode_bin(kind, case.i[1]).map(|_| ()),
        "decode_int" => check_decode_int(kind, case.i[1], case.i[2] as usize).map(|_| ()),
        "decode_json" => check_decode_json(kind, &case.s[0]).map(|_| ()),
        k => Err(format!("unknown case kind {k}")),
    };
    match r {
        Ok(()) => Verdict::Pass,
        Err(m) => Verdict::Fail(m),
    }
}

fn mutate(s: &str, sm: &mut SplitMix) -> String {
    let mut b: Vec<char> = s.chars().collect();
    let n = 1 + sm.below(3);
    for _ in 0..n {
        let kind = sm.below(9);
        let pos = if b.is_empty() { 0 } else { sm.below(b.len() as u64) as usize };
        match kind {
            0 if !b.is_empty() => b[pos] = (b'0' + sm.below(10) as u8) as char,
            1 if !b.is_empty() => {
                b.remove(pos);
            }
            2 => b.insert(pos, (b'0' + sm.below(10) as u8) as char),
            3 => b.truncate(pos),
            4 => b.insert(pos, ['-', '+', ' ', ':', '.', 'x', 'é', '9'][sm.below(8) as usize]),
            5 if !b.is_empty() => b[pos] = '9',
            6 => b.extend("99".chars()),
            7 if b.len() > 2 => {
                let q = pos.min(b.len() - 2);
                b.swap(q, q + 1);
            }
            _ => b.insert(0, '-'),
        }
    }
    b.into_iter().collect()
}

pub fn run(ctx: &Ctx) -> (Stats, Report) {
    let c = cal();
    let mut st = Stats::new();
    let mut mark = (0, 0);
    run_replays(P, &mut st, &eval);
    st.section("replays", &mut mark);
    let seed = ctx.seed;

    // round trips: all dates, all seconds, pools + random
    let s = par_sweep(c.len() as u64, 1 << 12, |range, st| {
        for i in range {
            let n = c.rows[i as usize].n as i128;
            st.evaluations += 1;
            st.nontrivial_enum += 1;
            if let Err(m) = check_roundtrip(Kind::Date, n) {
                st.fail(i, Case::new(P, "roundtrip", vec![0, n], vec![]), m);
                return;
            }
        }
    });
    st.merge(s);
    st.exhaustive_sections.push("all dates through JSON and bincode".into());
    let s = par_sweep(86_400, 256, |range, st| {
        for sec in range {
            for us in [0i128, 1, 999_999] {
                let t = sec as i128 * US_PER_SEC + us;
                st.evaluations += 1;
                st.nontrivial_enum += 1;
                if let Err(m) = check_roundtrip(Kind::Time, t) {
                    st.fail(sec, Case::new(P, "roundtrip", vec![1, t], vec![]), m);
                    return;
                }
            }
        }
    });
    st.merge(s);
    st.exhaustive_sections.push("all seconds of the day x {0,1,999999} us through JSON and bincode".into());
    for kind in [Kind::Ts, Kind::Ora, Kind::YM, Kind::DT, Kind::Time, Kind::Date] {
        let vals = pools::pool(kind, seed, if ctx.thorough { 6_000_000 } else { 500_000 });
        let vref = &vals;
        let s = par_sweep(vals.len() as u64, 2048, |range, st| {
            for k in range {
                let v = &vref[k as usize];
                st.evaluations += 1;
                st.fps.push(hash_ints(kind.index() as u64 + 100, &[v.raw]));
                if let Err(m) = check_roundtrip(kind, v.raw) {
                    st.fail(k, Case::new(P, "roundtrip", vec![kind.index() as i128, v.raw], vec![]), m);
                    return;
                }
                let key = mix64(seed ^ mix64(k ^ (kind.index() as u64) << 32));
                if key < st.sample_threshold() {
                    st.sample(key, || json!({"type": kind.name(), "raw": v.raw.to_string(), "json": render(v, &tokenize(layout(kind)).unwrap()).unwrap().text}));
                }
            }
        });
        st.merge(s);
    }
    st.section("round_trips", &mut mark);

    // decoding raw integers
    for kind in KINDS {
        let (lo, hi) = strat::limits(kind);
        let mut payloads: Vec<i128> = vec![];
        for l in [lo, hi, 0, ora_max(), ts_max(), ts_min(), US_PER_DAY, -1] {
            for d in -3i128..=3 {
                payloads.push(l + d);
            }
            payloads.push(l + 1_000_000);
            payloads.push(l - 1_000_000);
        }
        for x in [i64::MIN as i128, i64::MIN as i128 + 1, i64::MAX as i128, i64::MAX as i128 - 1, i32::MIN as i128, i32::MAX as i128, i32::MIN as i128 + 1, i32::MAX as i128 - 1] {
            payloads.push(x);
        }
        let width_min = if matches!(kind, Kind::Date | Kind::YM) { i32::MIN as i128 } else { i64::MIN as i128 };
        let width_max = if matches!(kind, Kind::Date | Kind::YM) { i32::MAX as i128 } else { i64::MAX as i128 };
        let mut sm = SplitMix(seed ^ 0x15 ^ kind.index() as u64);
        for k in 0..(if ctx.thorough { 40_000_000 } else { 400_000 }) {
            payloads.push(match k % 3 {
                0 => sm.range_i128(width_min, width_max),
                1 => sm.range_i128((lo - (hi - lo) / 4).max(width_min), (hi + (hi - lo) / 4).min(width_max)),
                _ => sm.range_i128(lo, hi),
            });
        }
        let payloads: Vec<i128> = payloads.into_iter().filter(|x| *x >= width_min && *x <= width_max).collect();
        let pref = &payloads;
        let s = par_sweep(payloads.len() as u64, 4096, |range, st| {
            for k in range {
                let x = pref[k as usize];
                st.evaluations += 1;
                let inr = ad::in_range(&Val::new(kind, x));
                if !inr {
                    st.fps.push(hash_ints(kind.index() as u64 + 200, &[x]));
                }
                match check_decode_bin(kind, x) {
                    Ok(true) => {
                        st.class("binary-payload-accepted");
                        if !inr {
                            st.fail(k, Case::new(P, "decode_bin", vec![kind.index() as i128, x], vec![]), "harness: accepted but model says out of range".into());
                            return;
                        }
                    }
                    Ok(false) => {
                        st.class("binary-payload-rejected");
                        if inr {
                            st.fail(k, Case::new(P, "roundtrip", vec![kind.index() as i128, x], vec![]), format!("bincode::deserialize::<{}>(raw count {x}) failed although {x} is a valid value (round trip broken)", kind.name()));
                            return;
                        }
                    }
                    Err(m) => {
                        st.fail(k, Case::new(P, "decode_bin", vec![kind.index() as i128, x], vec![]), m);
                        return;
                    }
                }
            }
        });
        st.merge(s);
    }
    st.section("binary_payloads", &mut mark);

    // integers delivered in every width by serde's own value deserializers
    for kind in KINDS {
        let (lo, hi) = strat::limits(kind);
        let mut payloads: Vec<i128> = vec![];
        for base in [0i128, lo, hi, 19_000, -19_000, 14, US_PER_DAY, ts_max(), ts_min()] {
            // the value itself and its images shifted by multiples of 2^8 .. 2^64 (what a
            // truncating cast would fold back onto it)
            for k in [8u32, 16, 31, 32, 33, 63, 64, 65] {
                for m in [-2i128, -1, 1, 2] {
                    payloads.push(base + m * (1i128 << k));
                }
            }
            for d in -2i128..=2 {
                payloads.push(base + d);
            }
        }
        for x in [i64::MIN as i128, i64::MAX as i128, u64::MAX as i128, u64::MAX as i128 - 5, i32::MIN as i128, i32::MAX as i128, u32::MAX as i128, i128::MAX, i128::MIN, u32::MAX as i128 + 1, u64::MAX as i128 + 1] {
            payloads.push(x);
        }
        let mut sm = SplitMix(seed ^ 0x1d ^ kind.index() as u64);
        for k in 0..(if ctx.thorough { 2_000_000 } else { 200_000 }) {
            payloads.push(match k % 4 {
                0 => sm.next() as i64 as i128,
                1 => sm.range_i128(lo, hi) + ((sm.below(9) as i128 - 4) << [8, 16, 32, 64][sm.below(4) as usize]),
                2 => (sm.next() as i128) << sm.below(64),
                _ => sm.range_i128(lo, hi),
            });
        }
        let pref = &payloads;
        let s = par_sweep(payloads.len() as u64 * INT_WIDTHS.len() as u64, 4096, |range, st| {
            for k in range {
                let (x, w) = (pref[k as usize / INT_WIDTHS.len()], k as usize % INT_WIDTHS.len());
                st.evaluations += 1;
                st.fps.push(hash_ints(kind.index() as u64 + 300, &[x, w as i128]));
                match check_decode_int(kind, x, w) {
                    Ok(true) => st.class("integer-payload-accepted"),
                    Ok(false) => st.class("integer-payload-rejected"),
                    Err(m) => {
                        st.fail(k, Case::new(P, "decode_int", vec![kind.index() as i128, x, w as i128], vec![]), m);
                        return;
                    }
                }
            }
        });
        st.merge(s);
    }
    st.section("integer_payloads_every_width", &mut mark);

    // decoding perturbed / malformed JSON
    for kind in KINDS {
        let vals = pools::pool(kind, seed, 2000);
        let toks = tokenize(layout(kind)).unwrap();
        let vref = &vals;
        let tref = &toks;
        let per = if ctx.thorough { 600 } else { 120 };
        let s = par_sweep(vals.len() as u64, 64, |range, st| {
            for k in range {
                let v = &vref[k as usize];
                let good = render(v, tref).unwrap().text;
                let mut sm = SplitMix(seed ^ mix64(k ^ (kind.index() as u64) << 40));
                for j in 0..per {
                    let payload = if j < 6 {
                        ["null", "12345", "[]", "\"\"", "{\"a\":1}", "true"][j].to_string()
                    } else {
                        format!("\"{}\"", mutate(&good, &mut sm).replace('\\', "\\\\").replace('"', "\\\""))
                    };
                    st.evaluations += 1;
                    st.fps.push(hash_bytes(kind.index() as u64 + 300, payload.as_bytes()));
                    match check_decode_json(kind, &payload) {
                        Ok(true) => st.class("json-payload-accepted-in-range"),
                        Ok(false) => st.class("json-payload-rejected"),
                        Err(m) => {
                            st.fail(k, Case::new(P, "decode_json", vec![kind.index() as i128], vec![payload]), m);
                            return;
                        }
                    }
                }
            }
        });
        st.merge(s);
    }
    // long payloads: a valid or empty head, a filler of every length 0..=N, then a 2-, 3- or
    // 4-byte character, so that a multi-byte character straddles every byte offset up to N
    {
        let maxlen: usize = if ctx.thorough { 5000 } else { 600 };
        let heads: Vec<String> = KINDS.iter().map(|k| render(&pools::pool(*k, seed, 0)[5], &tokenize(layout(*k)).unwrap()).unwrap().text).collect();
        let href = &heads;
        let s = par_sweep(maxlen as u64 + 1, 8, |range, st| {
            for n in range {
                for (ci, wide) in ["é", "日", "😀"].iter().enumerate() {
                    for (ki, kind) in KINDS.iter().enumerate() {
                        let head: &str = if (n as usize + ci + ki) % 2 == 0 { &href[ki] } else { "" };
                        let fill = ["x", " ", "0"][(n as usize + ki) % 3].repeat((n as usize).saturating_sub(head.len()));
                        let payload = format!("\"{head}{fill}{wide}tail{wide}\"");
                        st.evaluations += 1;
                        st.fps.push(hash_bytes(kind.index() as u64 + 400, payload.as_bytes()));
                        match check_decode_json(*kind, &payload) {
                            Ok(true) => st.class("json-payload-accepted-in-range"),
                            Ok(false) => st.class("long-non-ascii-json-payload-rejected"),
                            Err(m) => {
                                st.fail(n, Case::new(P, "decode_json", vec![kind.index() as i128], vec![payload]), m);
                                return;
                            }
                        }
                    }
                }
            }
        });
        st.merge(s);
    }
    // every single-character substitution of a canonical text (every position x an alphabet of
    // digits, signs, separators and the letters other date notations use) x four kinds of padding
    {
        let alphabet = ['T', 't', 'Z', 'z', ' ', '-', '+', ':', '.', ',', '/', '0', '9', 'W', 'e', '_'];
        let pads = [String::new(), " ".repeat(8), " ".repeat(40), "0".repeat(40)];
        for kind in KINDS {
            let toks = tokenize(layout(kind)).unwrap();
            for v in [pools::pool(kind, seed, 0)[5], pools::pool(kind, seed, 0)[11]] {
                let good: Vec<char> = render(&v, &toks).unwrap().text.chars().collect();
                for pos in 0..good.len() {
                    for &c in &alphabet {
                        if good[pos] == c {
                            continue;
                        }
                        let mut t = good.clone();
                        t[pos] = c;
                        let t: String = t.into_iter().collect();
                        for pad in &pads {
                            let payload = format!("\"{t}{pad}\"");
                            st.evaluations += 1;
                            st.nontrivial_enum += 1;
                            match check_decode_json(kind, &payload) {
                                Ok(true) => st.class("substituted-text-payload-accepted-in-range"),
                                Ok(false) => st.class("substituted-text-payload-rejected"),
                                Err(m) => st.fail(pos as u64, Case::new(P, "decode_json", vec![kind.index() as i128], vec![payload]), m),
                            }
                        }
                    }
                }
            }
        }
    }
    // text payloads written field by field at the limits: the limit day count (and its
    // neighbours) with every boundary / binary-boundary time of day, both signs; limit years with
    // every month; first / last supported dates and their outside neighbours
    {
        let mut times = pools::time_edges();
        times.extend(pools::binary_times_of_day());
        times.extend(pools::mirrored_binary_times());
        let hms = |t: i128| format!("{:02}:{:02}:{:02}.{:06}", t / US_PER_HOUR, t % US_PER_HOUR / US_PER_MIN, t % US_PER_MIN / US_PER_SEC, t % US_PER_SEC);
        let mut payloads: Vec<(Kind, String)> = vec![];
        for d in [99_999_999u32, 100_000_000, 100_000_001] {
            for &t in &times {
                for sign in ["", "+", "-"] {
                    payloads.push((Kind::DT, format!("\"{sign}{d} {}\"", hms(t))));
                }
            }
        }
        for y in [177_999_999u32, 178_000_000, 178_000_001] {
            for m in 0..=12 {
                for sign in ["", "+", "-"] {
                    payloads.push((Kind::YM, format!("\"{sign}{y}-{m:02}\"")));
                }
            }
        }
        for date in ["0000-12-31", "0001-01-01", "9999-12-31", "10000-01-01", "9999-12-32", "9999-13-01"] {
            payloads.push((Kind::Date, format!("\"{date}\"")));
            for &t in &times {
                payloads.push((Kind::Ts, format!("\"{date} {}\"", hms(t))));
                payloads.push((Kind::Ora, format!("\"{date} {}\"", &hms(t)[..8])));
            }
        }
        for &t in &times {
            payloads.push((Kind::Time, format!("\"{}\"", hms(t))));
            payloads.push((Kind::Time, format!("\"{}\"", hms(t + US_PER_DAY))));
        }
        // the first / last valid text of every type with the extensions other notations allow:
        // shorter / longer fractions, zone designators, trailing text
        for kind in KINDS {
            let toks = tokenize(layout(kind)).unwrap();
            let (lo, hi) = strat::limits(kind);
            for raw in [lo, hi, 0] {
                let base = render(&Val::new(kind, raw), &toks).unwrap().text;
                for suffix in [".5", ".500", ".999", ".9999999", ".999999999", "5", "9", "Z", "z", " Z", "+00", "+00:00", " UTC", " ", "  ", ".", ":59", " 23:59:59.5", "T23:59:59.9"] {
                    payloads.push((kind, format!("\"{base}{suffix}\"")));
                    if base.len() > 7 {
                        // the same with the last characters of the canonical text removed first
                        payloads.push((kind, format!("\"{}{suffix}\"", &base[..base.len() - 7])));
                    }
                }
            }
        }
        // alternative spellings of one field of a canonical text - every month name (full and
        // abbreviated, three letter cases) where the month number stands, unpadded and signed
        // numbers - and every prefix of the resulting text (a payload that stops after / inside
        // any field)
        for kind in [Kind::Date, Kind::Ts, Kind::Ora, Kind::YM, Kind::DT, Kind::Time] {
            let bases: Vec<&str> = match kind {
                Kind::Date => vec!["2020-{}-15"],
                Kind::Ts => vec!["2020-{}-15 10:20:30.123456"],
                Kind::Ora => vec!["2020-{}-15 10:20:30"],
                Kind::YM => vec!["+0005-{}", "-0005-{}"],
                Kind::DT => vec!["+{} 10:20:30.123456"],
                _ => vec!["{}:20:30.123456"],
            };
            let mut fields: Vec<String> = vec!["9".into(), "+9".into(), "-9".into(), "09".into(), "009".into(), " 9".into(), "".into()];
            if !matches!(kind, Kind::DT | Kind::Time) {
                for name in MONTH_NAMES {
                    for n in [&name[..3], name] {
                        fields.push(n.to_string());
                        fields.push(n.to_uppercase());
                        fields.push(n.to_lowercase());
                    }
                }
            }
            for base in bases {
                for f in &fields {
                    let text = base.replace("{}", f);
                    for cut in 0..=text.len() {
                        if text.is_char_boundary(cut) {
                            payloads.push((kind, format!("\"{}\"", &text[..cut])));
                        }
                    }
                }
            }
        }
        for (kind, payload) in payloads {
            st.evaluations += 1;
            st.nontrivial_enum += 1;
            match check_decode_json(kind, &payload) {
                Ok(true) => st.class("limit-text-payload-accepted-in-range"),
                Ok(false) => st.class("limit-text-payload-rejected"),
                Err(m) => st.fail(0, Case::new(P, "decode_json", vec![kind.index() as i128], vec![payload]), m),
            }
        }
    }
    st.section("json_payloads", &mut mark);

    // histories: sequences of successful and failing (de)serializations on one thread
    {
        use proptest::prelude::*;
        let pools_: Vec<Vec<Val>> = KINDS.iter().map(|k| pools::pool(*k, seed, 200)).collect();
        let pref = &pools_;
        let s = pt_run(
            "C15/histories",
            seed,
            (if ctx.thorough { 2_000_000 } else { 480_000 }) / THREADS as u32,
            THREADS,
            || proptest::collection::vec((0u8..7, 0usize..6, any::<u32>(), any::<u32>()), 2..=10),
            |steps: &Vec<(u8, usize, u32, u32)>, st: &mut Stats| {
                let resolved: Vec<(u8, usize, i128, u32)> = steps.iter().map(|(op, ki, vi, aux)| (*op, *ki, pref[*ki][(*vi as usize) % pref[*ki].len()].raw, *aux)).collect();
                st.evaluations += resolved.len() as u64;
                check_history(&resolved)?;
                let failing = resolved.iter().filter(|s| s.0 % 7 == 1 || s.0 % 7 == 3).count();
                if failing > 0 && resolved.last().map(|s| s.0 % 7 != 1 && s.0 % 7 != 3).unwrap_or(false) {
                    st.class("history-with-a-failed-write-before-a-successful-one");
                    let flat: Vec<i128> = resolved.iter().flat_map(|s| [s.0 as i128, s.1 as i128, s.2, s.3 as i128]).collect();
                    st.fps.push(hash_ints(0x15a, &flat));
                } else {
                    st.class("history-other");
                }
                if st.evaluations % 4999 < resolved.len() as u64 {
                    st.sample(mix64(seed ^ st.evaluations), || json!({"history": resolved.iter().map(|s| json!({"op": OPNAMES[s.0 as usize % 7], "type": KINDS[s.1 % 6].name(), "raw": s.2.to_string()})).collect::<Vec<_>>()}));
                }
                Ok(())
            },
            |steps: &Vec<(u8, usize, u32, u32)>| {
                let flat: Vec<i128> = steps.iter().flat_map(|(op, ki, vi, aux)| [*op as i128, *ki as i128, pref[*ki][(*vi as usize) % pref[*ki].len()].raw, *aux as i128]).collect();
                Case::new(P, "history", flat, vec![])
            },
        );
        st.merge(s);
    }
    st.section("serialization_histories", &mut mark);

    // concurrent histories: the same round trips from 16 threads at once
    {
        let iters = if ctx.thorough { 1_500_000 } else { 240_000 };
        for rep in 0..4u64 {
            match check_concurrent(seed ^ mix64(rep), THREADS, iters / 4) {
                Ok(n) => {
                    st.evaluations += n;
                    st.nontrivial_enum += n;
                    st.class_n("concurrent-round-trip", n);
                }
                Err(m) => st.fail(rep, Case::new(P, "concurrent", vec![(seed ^ mix64(rep)) as i128, THREADS as i128, (iters / 4) as i128], vec![]), m),
            }
        }
    }
    st.section("concurrent_histories", &mut mark);

    let rep = Report {
        rule: "Round trips through serde_json and bincode: all dates, every second of the day x {0,1,999999} us, boundary+seeded pools of all six types; the JSON text must equal the reference rendering of the fixed layout in quotes and the binary form the little-endian raw count; the binary round trip is repeated with variable-length integers (signedness and width of writer and reader must agree) and big-endian fixed width. Decoding: raw integers at every range limit +-0..3 and +-1e6, the i32/i64 extremes and seeded integers (uniform over the integer width, around the range, inside the range) as bincode payloads of every type (non-whole-second counts for the Oracle date included); JSON payloads made by 1..3 random edits of valid strings plus non-string JSON, every single-character substitution of canonical texts (every position x 16 characters incl. the ISO 'T' / 'Z' letters) x four paddings, text payloads written field by field at the limits (limit day count +-1 x every boundary / binary-boundary time of day x sign, limit years x months, first / last supported dates and their outside neighbours x times, the first / last valid text of every type with 19 extension suffixes such as shorter / longer fractions and zone designators; canonical texts with one field respelled - every month name in three letter cases for the month number, unpadded / signed / over-padded / empty numbers - cut at every length), and long strings (valid or empty head + filler of every length 0..=600, 5000 in thorough, + a 2-, 3- or 4-byte character, so that a multi-byte character straddles every byte offset); integers handed to Deserialize in every width (i8..i128, u8..u128) by serde's de::value deserializers - range limits, small values and their images shifted by multiples of 2^8..2^65, extremes, seeded values: Err, or exactly the value whose raw count is that integer (never a truncated image). Concurrent histories: 16 threads, each walking its own three days (staying on a day 3 times out of 4) and round-tripping every value twice, so that any state the library shares between calls is hit from several threads (schedule-dependent: sound on any tree, sensitivity probabilistic). Oracle: round trip returns the same value; any other payload yields Err or a value satisfying the range predicate (whole seconds for the Oracle date). Non-trivial = every round-tripped value; out-of-range binary payloads; every perturbed JSON payload (distinct by content).".into(),
        assumptions: vec!["bincode 1.3 (little-endian fixed-width integers for the byte-exact comparison; variable-length and big-endian configurations for round trips only) and serde_json as the data formats".into()],
        exhaustive: false,
        extra: Default::default(),
    };
    (st, rep)
}
