//! C11 – rounding picks one of the two adjacent unit boundaries by the documented rule.

use super::c10::{bounds_cached, call_unit, critical_times, sampled_days, show, WHICH};
use crate::engine::*;
use crate::model::cal::*;
use serde_json::json;

const P: &str = "C11";
pub const K1: &str = "K1-round-century-year-100";

const NOON: i64 = 43_200_000_000;

#[derive(Clone, Copy, Debug, PartialEq)]
pub enum Choice {
    /// the input is on a boundary: returned unchanged
    Same,
    Earlier,
    Later,
    /// shortened last week of a year / month: the statement fixes no midpoint
    Either,
}

/// The documented rule: which neighbour is chosen for the instant (row r, time t).
pub fn rule(u: Unit, r: &Row, t: i64) -> Choice {
    let on = starts_unit(u, r) && (u.is_day_based() && t == 0 || matches!(u, Unit::Hour) && t as i128 % US_PER_HOUR == 0 || matches!(u, Unit::Minute) && t as i128 % US_PER_MIN == 0);
    if on {
        return Choice::Same;
    }
    let later = |b: bool| if b { Choice::Later } else { Choice::Earlier };
    // position in a 7-day week: rounds up from the fifth day (date) / noon of the fourth day
    let week = |p: u32| later(p >= 4 || (p == 3 && t >= NOON));
    match u {
        Unit::Century => later((r.y - 1) % 100 + 1 >= 51),
        Unit::Year => later(r.m >= 7),
        Unit::IsoYear => later(r.m >= 7),
        Unit::Quarter => {
            let pos = (r.m - 1) % 3; // 0, 1, 2
            later(pos == 2 || (pos == 1 && r.d >= 16))
        }
        Unit::Month => later(r.d >= 16),
        Unit::Week => {
            let p = (r.doy as u32 - 1) % 7;
            let start = r.doy as u32 - p;
            if start + 6 > year_len(r.y) {
                Choice::Either
            } else {
                week(p)
            }
        }
        Unit::IsoWeek => week((r.wd as u32 + 5) % 7), // Monday = 0
        Unit::SundayWeek => week(r.wd as u32 - 1),   // Sunday = 0
        Unit::MonthWeek => {
            let p = (r.d as u32 - 1) % 7;
            let start = r.d as u32 - p;
            if start + 6 > month_len(r.y, r.m as u32) {
                Choice::Either
            } else {
                week(p)
            }
        }
        Unit::Day => later(t >= NOON),
        Unit::Hour => later(t as i128 % US_PER_HOUR >= 30 * US_PER_MIN),
        Unit::Minute => later(t as i128 % US_PER_MIN >= 30 * US_PER_SEC),
    }
}

/// (earlier boundary, later boundary) as instants; None = outside the supported range.
pub fn neighbours(u: Unit, b: &Bounds, i: usize, t: i64) -> (Option<i128>, Option<i128>) {
    let c = cal();
    let day = c.rows[i].n as i128 * US_PER_DAY;
    match u {
        Unit::Hour | Unit::Minute => {
            let step = if u == Unit::Hour { US_PER_HOUR } else { US_PER_MIN };
            let lo = day + (t as i128 / step) * step;
            let hi = lo + step;
            (Some(lo), if hi <= ts_max() { Some(hi) } else { None })
        }
        _ => {
            let p = b.prev[i];
            let nx = b.next[i];
            let lo = if p == NONE_BEFORE { None } else { Some(c.rows[p as usize].n as i128 * US_PER_DAY) };
            let hi = if nx == NONE_AFTER { None } else { Some(c.rows[nx as usize].n as i128 * US_PER_DAY) };
            (lo, hi)
        }
    }
}

/// Is the ISO-year "later" target (Monday of ISO week 1 of the next calendar year) in range,
/// and which instant is it? For month >= 7 that Monday is either the next boundary after the
/// input or (for Dec 29..31 already past it) the truncation of the input.
fn iso_year_target(b: &Bounds, i: usize) -> Option<i128> {
    let c = cal();
    let r = &c.rows[i];
    // the Monday within Dec 29 (year y) ..= Jan 4 (year y+1)
    if let Some(dec29) = c.lookup(r.y as i64, 12, 29) {
        let j = c.idx(dec29);
        // boundary at or after Dec 29 of this year
        let cand = if starts_unit(Unit::IsoYear, &c.rows[j]) { j as i32 } else { b.next[j] };
        if cand == NONE_AFTER {
            return None;
        }
        return Some(c.rows[cand as usize].n as i128 * US_PER_DAY);
    }
    None
}

pub fn check_round(which: u8, u: Unit, b: &Bounds, n: i32, t: i64) -> Verdict {
    let c = cal();
    let i = c.idx(n);
    let r = &c.rows[i];
    let t_eff = if which == 0 { 0 } else { t };
    let input = n as i128 * US_PER_DAY + t_eff as i128;
    let got = match call_unit(which, true, u, n, t_eff) {
        Ok(g) => g,
        Err(p) => return Verdict::Fail(format!("{}({}).round_{}(): {p}", WHICH[which as usize], show(input), u.name())),
    };
    let ctx = || format!("{}({}).round_{}()", WHICH[which as usize], show(input), u.name());
    let (lo, hi) = neighbours(u, b, i, t_eff);
    let choice = rule(u, r, t_eff);
    let fmt = |x: &Result<i128, sqldatetime::Error>| match x {
        Ok(v) => show(*v),
        Err(e) => format!("Err({e:?})"),
    };
    let expect_exact = |want: Option<i128>, why: &str| -> Verdict {
        match (want, &got) {
            (Some(w), Ok(g)) if *g == w => Verdict::Pass,
            (None, Err(_)) => Verdict::Pass,
            (Some(w), _) => Verdict::Fail(format!("{} = {}, expected {} ({why})", ctx(), fmt(&got), show(w))),
            (None, _) => Verdict::Fail(format!("{} = {}, expected an error ({why}; that boundary lies outside 0001-01-01..9999-12-31)", ctx(), fmt(&got))),
        }
    };
    match choice {
        Choice::Same => expect_exact(Some(input), "a value already on a boundary is returned unchanged"),
        Choice::Earlier => expect_exact(lo, "before the documented midpoint: the truncation is chosen"),
        Choice::Later => {
            if u == Unit::IsoYear {
                return expect_exact(iso_year_target(b, i), "July onward goes to the Monday of ISO week 1 of the following calendar year");
            }
            // known finding K1: year 100 of a century is truncated instead of rounded up
            if u == Unit::Century && r.y % 100 == 0 {
                if let (Ok(g), Some(l)) = (&got, lo) {
                    if *g == l {
                        return Verdict::Known(K1);
                    }
                }
            }
            expect_exact(hi, "at or after the documented midpoint: the next boundary is chosen")
        }
        Choice::Either => match &got {
            Ok(g) if Some(*g) == lo || Some(*g) == hi => Verdict::Pass,
            Err(_) if hi.is_none() || lo.is_none() => Verdict::Pass,
            _ => Verdict::Fail(format!("{} = {}, expected one of the adjacent boundaries {:?} / {:?}", ctx(), fmt(&got), lo.map(show), hi.map(show))),
        },
    }
}

/// Mirror relation for shortened weeks at the top of the range: the outcome in 9999 must be
/// the outcome for the same calendar position in 9998 (both common years), with "later"
/// meaning an error in 9999.
pub fn check_mirror(which: u8, u: Unit, n: i32, t: i64) -> Result<bool, String> {
    let c = cal();
    let r = c.rows[c.idx(n)];
    if r.y != 9999 {
        return Ok(false);
    }
    let b = bounds_cached(u);
    if rule(u, &r, if which == 0 { 0 } else { t }) != Choice::Either {
        return Ok(false);
    }
    let m = c.lookup(9998, r.m as i64, r.d as i64).ok_or("mirror date")?;
    let t_eff = if which == 0 { 0 } else { t };
    let here = call_unit(which, true, u, n, t_eff)?;
    let there = call_unit(which, true, u, m, t_eff)?;
    let mi = c.idx(m);
    let (mlo, mhi) = neighbours(u, &b, mi, t_eff);
    let (lo, hi) = neighbours(u, &b, c.idx(n), t_eff);
    if hi.is_some() {
        return Ok(false); // the later boundary is inside the range: the plain rule applies
    }
    let there_later = match there {
        Ok(g) if Some(g) == mhi && mhi != mlo => true,
        Ok(g) if Some(g) == mlo => false,
        other => return Err(format!("mirror input in 9998 gave {other:?}")),
    };
    let ok = if there_later { here.is_err() } else { here.as_ref().ok().copied() == lo };
    if !ok {
        return Err(format!(
            "{}({}).round_{}() = {:?}, but the same calendar position in 9998 rounds {} => expected {}",
            WHICH[which as usize],
            show(n as i128 * US_PER_DAY + t_eff as i128),
            u.name(),
            here.map(show),
            if there_later { "up" } else { "down" },
            if there_later { "an error (the later boundary is after 9999-12-31)".to_string() } else { format!("{:?}", lo.map(show)) }
        ));
    }
    Ok(true)
}

pub fn eval(case: &Case) -> Verdict {
    let i = &case.i;
    match case.kind.as_str() {
        "round" => {
            let u = Unit::from_index(i[1] as usize);
            let b = bounds_cached(u);
            check_round(i[0] as u8, u, &b, i[2] as i32, i[3] as i64)
        }
        "mirror" => match check_mirror(i[0] as u8, Unit::from_index(i[1] as usize), i[2] as i32, i[3] as i64) {
            Ok(_) => Verdict::Pass,
            Err(m) => Verdict::Fail(m),
        },
        "monotone" => {
            let u = Unit::from_index(i[1] as usize);
            match check_monotone_pair(i[0] as u8, u, i[2] as i32, i[3] as i64, i[4] as i32, i[5] as i64) {
                Ok(()) => Verdict::Pass,
                Err(m) => Verdict::Fail(m),
            }
        }
        k => Verdict::Fail(format!("unknown case kind {k}")),
    }
}

/// round(a) <= round(b) for instants a <= b (both Ok), except across a K1 case.
pub fn check_monotone_pair(which: u8, u: Unit, n1: i32, t1: i64, n2: i32, t2: i64) -> Result<(), String> {
    let c = cal();
    let a = call_unit(which, true, u, n1, t1)?;
    let b = call_unit(which, true, u, n2, t2)?;
    if u == Unit::Century && (c.rows[c.idx(n1)].y % 100 == 0 || c.rows[c.idx(n2)].y % 100 == 0) {
        return Ok(()); // covered by known finding K1 (judged in check_round)
    }
    // an error stands for "beyond the maximum" at the top of the range and for "before the
    // minimum" at the bottom (Sunday week in the first days of year 1)
    let low_end = c.rows[c.idx(n2)].y <= 1;
    if low_end {
        return match (a, b) {
            (Ok(x), Ok(y)) if x > y => Err(format!("{}.round_{}() is not monotone at the start of the range: {} then {}", WHICH[which as usize], u.name(), show(x), show(y))),
            (Ok(x), Err(_)) => Err(format!("{}.round_{}() is not monotone at the start of the range: {} then an error", WHICH[which as usize], u.name(), show(x))),
            _ => Ok(()),
        };
    }
    match (a, b) {
        (Ok(x), Ok(y)) if x > y => Err(format!(
            "{}.round_{}() is not monotone: {} -> {} but the later input {} -> {}",
            WHICH[which as usize],
            u.name(),
            show(n1 as i128 * US_PER_DAY + t1 as i128),
            show(x),
            show(n2 as i128 * US_PER_DAY + t2 as i128),
            show(y)
        )),
        (Err(_), Ok(y)) => Err(format!(
            "{}.round_{}() is not monotone: {} fails (boundary after the maximum) but the later input {} -> {}",
            WHICH[which as usize],
            u.name(),
            show(n1 as i128 * US_PER_DAY + t1 as i128),
            show(n2 as i128 * US_PER_DAY + t2 as i128),
            show(y)
        )),
        _ => Ok(()),
    }
}

pub fn run(ctx: &Ctx) -> (Stats, Report) {
    let c = cal();
    let mut st = Stats::new();
    let mut mark = (0, 0);
    run_replays(P, &mut st, &eval);
    st.section("replays", &mut mark);
    let seed = ctx.seed;
    let times = critical_times();

    for u in UNITS {
        let b = bounds(u);
        let bref = &b;
        let tref = &times;
        let s = par_sweep(c.len() as u64, 1 << 12, |range, st| {
            for i in range {
                let r = &c.rows[i as usize];
                let near_end = (i as usize) < 7 || c.len() - (i as usize) <= 40;
                for which in [0u8, 1, 2] {
                    let ts: &[i64] = if which == 0 { &[0] } else { tref };
                    for (k, &t) in ts.iter().enumerate() {
                        let tt = if which == 2 { t / 1_000_000 * 1_000_000 } else { t };
                        st.evaluations += 1;
                        let choice = rule(u, r, tt);
                        if choice != Choice::Same || near_end {
                            st.nontrivial_enum += 1;
                        }
                        match choice {
                            Choice::Same => st.class("on-boundary"),
                            Choice::Earlier => st.class("rounds-down"),
                            Choice::Later => st.class("rounds-up"),
                            Choice::Either => st.class("shortened-week-either"),
                        }
                        let v = check_round(which, u, bref, r.n, tt);
                        if v != Verdict::Pass {
                            st.verdict(v, i, || Case::new(P, "round", vec![which as i128, u.index() as i128, r.n as i128, tt as i128], vec![]));
                            if st.has_fail() {
                                return;
                            }
                        }
                        // monotone: against the previous critical time of the same day, and
                        // the last critical time of the previous day
                        if u != Unit::IsoYear {
                            let prev = if which == 0 || k == 0 {
                                if i > 0 {
                                    Some((c.rows[i as usize - 1].n, if which == 0 { 0 } else { *ts.last().unwrap() }))
                                } else {
                                    None
                                }
                            } else {
                                Some((r.n, ts[k - 1]))
                            };
                            if let Some((pn, pt)) = prev {
                                let pt = if which == 2 { pt / 1_000_000 * 1_000_000 } else { pt };
                                st.evaluations += 1;
                                if let Err(m) = check_monotone_pair(which, u, pn, pt, r.n, tt) {
                                    st.fail(i, Case::new(P, "monotone", vec![which as i128, u.index() as i128, pn as i128, pt as i128, r.n as i128, tt as i128], vec![]), m);
                                    return;
                                }
                            }
                        }
                        if r.y == 9999 && choice == Choice::Either {
                            st.evaluations += 1;
                            st.class("mirror-9999-vs-9998");
                            if let Err(m) = check_mirror(which, u, r.n, tt) {
                                st.fail(i, Case::new(P, "mirror", vec![which as i128, u.index() as i128, r.n as i128, tt as i128], vec![]), m);
                                return;
                            }
                        }
                        if which == 1 && k == 8 {
                            let key = mix64(seed ^ mix64(i * 983 + u.index() as u64));
                            if key < st.sample_threshold() && choice != Choice::Same {
                                let (lo, hi) = neighbours(u, bref, i as usize, tt);
                                st.sample(key, || json!({"type": "Timestamp", "unit": u.name(), "input": show(r.n as i128 * US_PER_DAY + tt as i128), "rule": format!("{choice:?}"), "earlier": lo.map(show), "later": hi.map(show)}));
                            }
                        }
                    }
                }
            }
        });
        st.merge(s);
    }
    st.exhaustive_sections.push("all dates x 12 units on Date; all dates x 15 critical times x 12 units on Timestamp and OracleDate".into());
    st.section("all_dates_x_units", &mut mark);

    // call-order histories: descending and scrambled date order, units interleaved (see C10)
    {
        let all: Vec<std::sync::Arc<Bounds>> = UNITS.iter().map(|u| std::sync::Arc::new(bounds(*u))).collect();
        let aref = &all;
        let s = par_sweep(c.len() as u64, 1 << 12, |range, st| {
            let (lo, len) = (range.start, range.end - range.start);
            for pass in 0..2u64 {
                for k in 0..len {
                    let i = if pass == 0 { range.end - 1 - k } else { lo + (k * 2731 + 17) % len };
                    let r = &c.rows[i as usize];
                    for (ui, u) in UNITS.iter().enumerate() {
                        let which = ((i + ui as u64 + pass) % 3) as u8;
                        let t = if which == 0 { 0 } else { [0i64, 43_200_000_000, 86_399_000_000][(i % 3) as usize] };
                        st.evaluations += 1;
                        st.nontrivial_enum += 1;
                        let v = check_round(which, *u, &aref[ui], r.n, t);
                        if v != Verdict::Pass {
                            st.verdict(v, i, || Case::new(P, "round", vec![which as i128, u.index() as i128, r.n as i128, t as i128], vec![]));
                            if st.has_fail() {
                                return;
                            }
                        }
                    }
                }
            }
        });
        st.merge(s);
    }
    st.exhaustive_sections.push("all dates again in descending and in scrambled order, 12 units interleaved over the three types".into());
    st.section("call_order_histories", &mut mark);

    let days = sampled_days(seed, if ctx.thorough { 300 } else { 12 });
    for u in UNITS {
        let b = bounds(u);
        let bref = &b;
        let dref = &days;
        let s = par_sweep(days.len() as u64 * 86_400, 4096, |range, st| {
            for k in range {
                let n = dref[(k / 86_400) as usize];
                let sec = (k % 86_400) as i64;
                for (which, us) in [(1u8, 0i64), (1, 999_999), (2, 0)] {
                    let t = sec * 1_000_000 + us;
                    st.evaluations += 1;
                    st.nontrivial_enum += 1;
                    let v = check_round(which, u, bref, n, t);
                    if v != Verdict::Pass {
                        st.verdict(v, k, || Case::new(P, "round", vec![which as i128, u.index() as i128, n as i128, t as i128], vec![]));
                        if st.has_fail() {
                            return;
                        }
                    }
                }
            }
        });
        st.merge(s);
    }
    let btods = crate::pools::binary_times_of_day();
    let bdates = crate::pools::date_pool(seed, 60);
    for u in UNITS {
        let b = bounds(u);
        let (bref, tref, dref) = (&b, &btods, &bdates);
        let s = par_sweep(bdates.len() as u64, 4, |range, st| {
            for k in range {
                let n = dref[k as usize] as i32;
                for &t in tref.iter() {
                    st.evaluations += 1;
                    st.nontrivial_enum += 1;
                    let v = check_round(1, u, bref, n, t as i64);
                    if v != Verdict::Pass {
                        st.verdict(v, k, || Case::new(P, "round", vec![1, u.index() as i128, n as i128, t], vec![]));
                        if st.has_fail() {
                            return;
                        }
                    }
                }
            }
        });
        st.merge(s);
    }
    st.section("every_second_of_sampled_days", &mut mark);

    let rep = Report {
        rule: "Exhaustive: all dates x 12 units on Date; all dates x 15 critical times (around 12:00, minute 30, second 30, midnight) x 12 units on Timestamp and OracleDate; every second of sampled days. Oracle: earlier/later boundaries from per-unit predicates over the walked calendar (forward and backward pass) and the documented midpoint rule (year 51 of the century; 1 July; 16th of the quarter's 2nd month; 16th; 5th day of a full week, for timestamps noon of the 4th; 12:00; minute 30; second 30; ISO year: July onward -> Monday of ISO week 1 of the next calendar year); on-boundary inputs unchanged; Err iff the chosen boundary is outside the range; monotone between consecutive sweep points (all units but ISO year); shortened last week of a year/month: either neighbour, pinned at the top of the range by the mirror relation with year 9998. Non-trivial = not on a boundary, or within 40 days of the range end; distinct by enumeration.".into(),
        assumptions: vec![
            "Sunday-week rounding of 0001-01-01..03 (timestamps before 0001-01-04 12:00) must fail: the rule selects the truncation, which lies before 0001-01-01".into(),
            "known finding K1 (century rounding of years divisible by 100 returns the truncation) is matched by signature and reported as KNOWN-FINDING".into(),
        ],
        exhaustive: true,
        extra: Default::default(),
    };
    (st, rep)
}
