//! C19 – a picture is accepted exactly when it is a sequence of documented tokens.

use crate::adapter::{self as ad, FmtOut};
use crate::engine::*;
use crate::gen;
use crate::model::cal::*;
use crate::model::text::*;
use crate::pools;
use proptest::prelude::*;
use serde_json::json;
use sqldatetime::{Error, Formatter};

const P: &str = "C19";

pub const ALPHABET: &[u8] = b"YyMmDdHhIiSsFfAaPpOoNnTtWw12409-:/.,;\\ ";

/// Probe value whose fields all render differently: 2003-04-09 17:28:56.123456, a Wednesday
/// (year 2003/003/03/3, month 04/Apr, day 09, day-of-year 099, weekday 4, hour 17 vs 05,
/// minute 28, second 56, week of month 2, week of year 15, PM).
pub fn probe() -> Val {
    let d = pools::ymd(2003, 4, 9);
    Val::new(Kind::Ts, d * US_PER_DAY + pools::hms(17, 28, 56, 123_456))
}

/// Further probe values: one per month (so every month name is rendered) and seven consecutive
/// days (every weekday name), morning and afternoon alternating (both meridians).
pub fn name_probes() -> Vec<Val> {
    let mut v = vec![];
    for m in 1..=12i64 {
        v.push(Val::new(Kind::Ts, pools::ymd(2003, m, 8 + m) * US_PER_DAY + pools::hms(if m % 2 == 0 { 5 } else { 17 }, 28, 56, 123_456)));
    }
    for d in 0..7i128 {
        v.push(Val::new(Kind::Ts, (pools::ymd(1969, 12, 28) + d) * US_PER_DAY + pools::hms(if d % 2 == 0 { 0 } else { 12 }, 0, 0, 0)));
    }
    v
}

/// An accepted picture formatted for every name probe: the reference rendering, byte for byte
/// (every month name, weekday name and meridian in the letter case the token selects).
pub fn check_picture_names(pic: &str) -> Result<bool, String> {
    if !check_picture(pic)? {
        return Ok(false);
    }
    let toks = tokenize(pic).unwrap();
    for v in name_probes() {
        let lv = ad::to_lib(&v).map_err(|e| format!("probe rejected: {e:?}"))?;
        let out = ad::format_direct(&lv, pic).map_err(|p| format!("formatting a probe with {pic:?}: {p}"))?;
        let lazy = ad::format_lazy(&lv, pic).map_err(|p| format!("Timestamp::format({pic:?}) + write!: {p}"))?;
        if lazy != out {
            return Err(format!("picture {pic:?}, probe {}: Formatter::format gives {out:?} but Timestamp::format + write! gives {lazy:?}", super::c05::show(Kind::Ts, v.raw)).chars().take(900).collect());
        }
        let want_text = render(&v, &toks).expect("every token applies to a timestamp");
        match out {
            FmtOut::Text(s) if want_text.matches(&s) => {}
            other => return Err(format!("picture {pic:?}: probe {} renders as {other:?}, the reference rendering is {:?} (name or letter case differ)", super::c05::show(Kind::Ts, v.raw), want_text.text)),
        }
    }
    Ok(true)
}

fn wrapper_probe(kind: Kind) -> ad::LibVal {
    match kind {
        Kind::Date => ad::LibVal::Date(ad::date(12_151)),
        Kind::Time => ad::LibVal::Time(ad::time(62_936_123_456)),
        Kind::Ts => ad::LibVal::Ts(ad::ts(1_049_909_336_123_456)),
        Kind::Ora => ad::LibVal::Ora(ad::ora(1_049_909_336_000_000)),
        Kind::YM => ad::LibVal::YM(ad::ym(-14)),
        Kind::DT => ad::LibVal::DT(ad::dt(-93_784_000_005)),
    }
}

/// Returns whether the reference accepts the picture.
pub fn check_picture(pic: &str) -> Result<bool, String> {
    let want = tokenize(pic);
    let got = guarded(|| Formatter::try_new(pic).map(|_| ())).map_err(|p| format!("Formatter::try_new({pic:?}): {p}"))?;
    match (&want, &got) {
        (None, Ok(())) => return Err(format!("picture {pic:?} compiles although it is not a sequence of (at most 36) documented tokens")),
        (None, Err(Error::InvalidFormat(_))) => {
            // the one-shot wrappers of all six types must reject it as a format error too
            // ... whatever the input text is (ASCII, empty, non-ASCII, long): "1" and one more text,
            // rotating with the picture and the type
            const TEXTS: [&str; 7] = ["", "\u{a0}02:03", "\u{ff11}2-03", "\u{2212}1", "2021-12-31 23:59:59.123456 PM Monday December", " ", "+0000000000000000000000000000000000000000000000000000000000000000000000000000001"];
            let rot = hash_bytes(0x19e, pic.as_bytes()) as usize;
            for (ki, kind) in KINDS.into_iter().enumerate() {
                for text in ["1", TEXTS[(rot + ki) % TEXTS.len()]] {
                    match ad::parse_type(kind, text, pic).map_err(|p| format!("{}::parse({text:?}, {pic:?}): {p}", kind.name()))? {
                        Err(Error::InvalidFormat(_)) => {}
                        other => return Err(format!("picture {pic:?} is not a sequence of (at most 36) documented tokens and Formatter::try_new rejects it, but {}::parse({text:?}, ..) answers {other:?} instead of a format error", kind.name()).chars().take(900).collect()),
                    }
                }
                let v = wrapper_probe(kind);
                match ad::format_lazy(&v, pic).map_err(|p| format!("{}::format({pic:?}): {p}", kind.name()))? {
                    FmtOut::BadPicture(Error::InvalidFormat(_)) => {}
                    other => return Err(format!("picture {pic:?} is not a sequence of (at most 36) documented tokens and Formatter::try_new rejects it, but {}::format answers {other:?} instead of a format error", kind.name()).chars().take(900).collect()),
                }
            }
            return Ok(false);
        }
        (None, Err(e)) => return Err(format!("picture {pic:?} is rejected with {e:?}, expected Error::InvalidFormat")),
        (Some(t), Err(e)) => return Err(format!("picture {pic:?} is rejected ({e:?}) although it splits into the documented tokens {t:?}")),
        (Some(_), Ok(())) => {}
    }
    let toks = want.unwrap();
    let v = probe();
    let lv = ad::to_lib(&v).map_err(|e| format!("probe rejected: {e:?}"))?;
    let out = ad::format_direct(&lv, pic).map_err(|p| format!("formatting the probe with {pic:?}: {p}"))?;
    let lazy = ad::format_lazy(&lv, pic).map_err(|p| format!("Timestamp::format({pic:?}) + write!: {p}"))?;
    if lazy != out {
        return Err(format!("picture {pic:?}: Formatter::format gives {out:?} but Timestamp::format + write! gives {lazy:?}").chars().take(900).collect());
    }
    // the one-shot parse wrapper compiles the same picture: whatever it answers for the text,
    // it must not call the picture itself invalid
    // (pictures with the output-only codes W / WW are left out: the statement does not say
    // which error parsing reports for those)
    let output_only = toks.iter().any(|t| matches!(t, Tok::W | Tok::WW));
    if output_only {
    } else if let Ok(Err(Error::InvalidFormat(m))) = ad::parse_type(Kind::Ts, "?", pic) {
        return Err(format!("picture {pic:?} compiles with Formatter::try_new but Timestamp::parse rejects the picture itself: InvalidFormat({m:?})").chars().take(900).collect());
    }
    let want_text = render(&v, &toks).expect("every token applies to a timestamp");
    match out {
        FmtOut::Text(s) if want_text.matches(&s) => Ok(true),
        other => Err(format!(
            "picture {pic:?}: probe 2003-04-09 17:28:56.123456 renders as {other:?}, the reference tokenization {toks:?} renders {:?} (token identity, name case or blank-run length differ)",
            want_text.text
        )),
    }
}

pub fn eval(case: &Case) -> Verdict {
    match case.kind.as_str() {
        "picture" => match check_picture(&case.s[0]) {
            Ok(_) => Verdict::Pass,
            Err(m) => Verdict::Fail(m),
        },
        // a very long blank run is stored by its length, not as megabytes of text
        "blank_run" => match check_picture(&blank_run_picture(case.i[0] as usize, case.i[1] as u8)) {
            Ok(_) => Verdict::Pass,
            Err(m) => Verdict::Fail(m.chars().take(300).chain(" [...] ".chars()).chain(m.chars().rev().take(200).collect::<Vec<_>>().into_iter().rev()).collect()),
        },
        "picture_names" => match check_picture_names(&case.s[0]) {
            Ok(_) => Verdict::Pass,
            Err(m) => Verdict::Fail(m),
        },
        k => Verdict::Fail(format!("unknown case kind {k}")),
    }
}

pub fn blank_run_picture(n: usize, shape: u8) -> String {
    match shape {
        0 => " ".repeat(n),
        1 => format!("DD{}MM", " ".repeat(n)),
        _ => format!("YYYY{}Mon", " ".repeat(n)),
    }
}

fn nth_string(mut idx: u64, len: usize) -> String {
    let n = ALPHABET.len() as u64;
    let mut b = vec![0u8; len];
    for k in (0..len).rev() {
        b[k] = ALPHABET[(idx % n) as usize];
        idx /= n;
    }
    String::from_utf8(b).unwrap()
}

pub const NEAR_MISSES: &[&str] = &[
    "FF0", "HH2", "HH1", "HH13", "HH25", "A.M", "P.M", "A.M..", "AM.", "MOM", "MOT", "DA", "DAD", "da", "t", "M", "H", "S", "F", "A", "P", "MONT", "MONTHH", "YYYYY", "DDDD", "DAYY", "DYY", "WWW", "AMPM", "a.M.", "P.m.", "pM", "A.M.P.M.", "HH24HH12", "SSS", "MIM", "FFF", "FF10", "Dy", "dY", "mONth", "é", "日", "\t", "\n", "X", "Q", "_", "'", "\"text\"", "TT", "Tt",
    "TH", "SP", "J", "IW", "RR", "CC", "Q", "SSSSS", "TZH", "E", "X",
];

pub fn run(ctx: &Ctx) -> (Stats, Report) {
    let mut st = Stats::new();
    let mut mark = (0, 0);
    run_replays(P, &mut st, &eval);
    st.section("replays", &mut mark);
    let seed = ctx.seed;

    // E1: every string up to length L
    let maxlen = if ctx.thorough { 5 } else { 4 };
    for len in 0..=maxlen {
        let total = (ALPHABET.len() as u64).pow(len as u32);
        let s = par_sweep(total, 1 << 14, |range, st| {
            for idx in range {
                let pic = nth_string(idx, len);
                st.evaluations += 1;
                match check_picture(&pic) {
                    Ok(true) => {
                        st.nontrivial_enum += 1;
                        st.class("accepted");
                        let key = mix64(seed ^ mix64(idx ^ ((len as u64) << 50)));
                        if key < st.sample_threshold() {
                            st.sample(key, || json!({"picture": pic, "accepted": true, "tokens": format!("{:?}", tokenize(&pic).unwrap())}));
                        }
                    }
                    Ok(false) => {
                        // one deletion at either end away from an accepted picture
                        if len > 0 && (tokenize(&pic[..len - 1]).is_some() || tokenize(&pic[1..]).is_some()) {
                            st.nontrivial_enum += 1;
                            st.class("rejected-one-edit-from-accepted");
                        } else {
                            st.class("rejected");
                        }
                    }
                    Err(m) => {
                        st.fail(idx, Case::new(P, "picture", vec![], vec![pic]), m);
                        return;
                    }
                }
            }
        });
        st.merge(s);
    }
    st.exhaustive_sections.push(format!("every string of length 0..={maxlen} over the {}-symbol picture alphabet", ALPHABET.len()));
    st.section("all_short_strings", &mut mark);

    // near misses on their own and embedded in a valid picture
    let mut k = 0u64;
    for nm in NEAR_MISSES {
        for (pre, post) in [("", ""), ("YYYY-", ""), ("", " HH24"), ("DD ", ":MI"), ("MONTH", "DAY")] {
            let pic = format!("{pre}{nm}{post}");
            st.evaluations += 1;
            k += 1;
            st.fps.push(hash_bytes(19, pic.as_bytes()));
            st.class("near-miss-spelling");
            if let Err(m) = check_picture(&pic) {
                st.fail(k, Case::new(P, "picture", vec![], vec![pic]), m);
            }
        }
    }
    // every single-character substitution (all 128 ASCII values) at every position of every
    // token spelling, alone and inside a composite picture: look-alike bytes that a mask, a
    // case fold or a range test might let through
    let mut bases: Vec<String> = vec![];
    for t in gen::menu() {
        bases.push(spell(&[t.clone()]));
        bases.push(gen::spell_cased(&t, 0x2aa));
        bases.push(gen::spell_cased(&t, 0x355));
    }
    for b in ["HH12", "hh24", "T", " ", "YYYY-MM-DD HH24:MI:SS.FF6", "Dy, DD Mon YYYY HH:MI:SS A.M.", "DDD D W WW p.m."] {
        bases.push(b.to_string());
    }
    bases.sort();
    bases.dedup();
    let bref = &bases;
    let s = par_sweep(bases.len() as u64, 1, |range, st| {
        for bi in range {
            let base = &bref[bi as usize];
            let chars: Vec<char> = base.chars().collect();
            for pos in 0..chars.len() {
                for c in 0u8..128 {
                    let mut v = chars.clone();
                    v[pos] = c as char;
                    let sub: String = v.into_iter().collect();
                    for pic in [sub.clone(), format!("YYYY {sub}"), format!("{sub}:MI")] {
                        st.evaluations += 1;
                        st.fps.push(hash_bytes(0x19c, pic.as_bytes()));
                        st.class("single-character-substitution");
                        if let Err(m) = check_picture(&pic) {
                            st.fail(bi, Case::new(P, "picture", vec![], vec![pic]), m);
                            return;
                        }
                    }
                }
            }
            // every single-character insertion (all 128 ASCII values) at every gap - also inside a
            // token spelling - and every single-character deletion
            for pos in 0..=chars.len() {
                for c in 0u8..=128 {
                    let mut v = chars.clone();
                    if c < 128 {
                        v.insert(pos, c as char);
                    } else if pos < v.len() {
                        v.remove(pos);
                    } else {
                        continue;
                    }
                    let sub: String = v.into_iter().collect();
                    for pic in [sub.clone(), format!("YYYY {sub}"), format!("{sub}:MI")] {
                        st.evaluations += 1;
                        st.fps.push(hash_bytes(0x19d, pic.as_bytes()));
                        st.class(if c < 128 { "single-character-insertion" } else { "single-character-deletion" });
                        if let Err(m) = check_picture(&pic) {
                            st.fail(bi, Case::new(P, "picture", vec![], vec![pic]), m);
                            return;
                        }
                    }
                }
            }
        }
    });
    st.merge(s);
    // blank runs of every length 1..=700 (alone, and between two tokens)
    for n in 1..=700usize {
        for pic in [" ".repeat(n), format!("DD{}MM", " ".repeat(n)), format!("{}SS", " ".repeat(n))] {
            st.evaluations += 1;
            st.fps.push(hash_bytes(19, pic.as_bytes()));
            st.class("blank-run");
            if n >= 256 {
                st.class("blank-run-256-or-longer");
            }
            if let Err(m) = check_picture(&pic) {
                st.fail(n as u64, Case::new(P, "picture", vec![], vec![pic]), m);
                break;
            }
        }
    }
    // blank runs of every length next to name tokens, for every month / weekday name and both
    // meridians (the rendered width varies with the value)
    for n in 1..=700usize {
        for pic in [format!("DD MONTH{}YYYY", " ".repeat(n)), format!("Day{}Mon PM", " ".repeat(n))] {
            st.evaluations += name_probes().len() as u64;
            st.fps.push(hash_bytes(19, pic.as_bytes()));
            st.class("blank-run-next-to-name-tokens-x-every-name");
            if let Err(m) = check_picture_names(&pic) {
                st.fail(n as u64, Case::new(P, "picture_names", vec![], vec![pic]), format!("blank run of {n}: {}", m.chars().rev().take(300).collect::<String>().chars().rev().collect::<String>()));
                break;
            }
        }
    }
    // blank runs whose length sits at 2^k: the widths a narrower counter would have (k = 8..=20),
    // and the sizes at which a length cap or a 32-bit size computation would bite (k up to 25, 27 in
    // the thorough tier: pictures of up to 128 MiB)
    let kmax = if ctx.thorough { 27 } else { 25 };
    for k in 8..=kmax {
        let ns: Vec<usize> = if k <= 20 || ctx.thorough { vec![(1usize << k) - 1, 1 << k, (1 << k) + 1] } else { vec![(1 << k) + 1] };
        for n in ns {
            for shape in 0..3u8 {
                if shape == 2 && k <= 20 {
                    continue;
                }
                let pic = blank_run_picture(n, shape);
                st.evaluations += 1;
                st.fps.push(hash_bytes(19, pic.as_bytes()));
                st.class("blank-run-at-binary-boundary-length");
                if k > 20 {
                    st.class("blank-run-longer-than-2^20");
                }
                if let Err(m) = check_picture(&pic) {
                    let short = format!("{}<{} blanks>{}", ["", "DD", "YYYY"][shape as usize], n, ["", "MM", "Mon"][shape as usize]);
                    let m: String = if m.len() > 600 { m.chars().take(300).collect() } else { m };
                    st.fail(n as u64, Case::new(P, "blank_run", vec![n as i128, shape as i128], vec![]), format!("{m} [picture: {short}]"));
                }
            }
        }
    }
    // characters that text-handling code tends to strip or to treat as blanks - byte order mark,
    // zero-width and non-breaking spaces, line and paragraph separators, tab, CR, LF, NUL - at the
    // start, at the end and between the tokens of valid pictures: none is a documented token
    for base in [vec!["YYYY", "-", "MM", "-", "DD"], vec!["Month", " ", "DD"], vec!["HH24", ":", "MI"], vec![" "], vec![]] {
        for ch in ['\u{feff}', '\u{200b}', '\u{a0}', '\u{2028}', '\u{2029}', '\u{3000}', '\u{200e}', '\u{85}', '\t', '\r', '\n', '\0', '\u{b}', '\u{c}'] {
            for pos in 0..=base.len() {
                let mut pic = String::new();
                for (k, t) in base.iter().enumerate() {
                    if k == pos {
                        pic.push(ch);
                    }
                    pic.push_str(t);
                }
                if pos == base.len() {
                    pic.push(ch);
                }
                st.evaluations += 1;
                st.fps.push(hash_bytes(19, pic.as_bytes()));
                st.class("invisible-character-in-picture");
                if let Err(m) = check_picture(&pic) {
                    st.fail(pos as u64, Case::new(P, "picture", vec![], vec![pic]), m);
                }
            }
        }
    }
    // token-count limit: 30..=42 tokens of several shapes, and every documented token repeated
    // (the longest spellings give the longest pictures that are still within the limit)
    for n in 30..=42usize {
        for unit in [
            "-", "DD-", "D ", "T", "YYYY", "HH24:", "/", "MONTH", "month", "Month ", "MON", "DAY", "day,", "DY", "A.M.", "p.m.", "AM", "HH12", "HH24", "HH", "MI", "SS", "FF", "FF9", "FF1", "DDD", "DD", "MM", "WW", "W", "YYY", "YY", "Y", ":", ".", ",", ";", "\\", " ", "  -",
        ] {
            let pic: String = unit.repeat(n);
            st.evaluations += 1;
            st.fps.push(hash_bytes(19, pic.as_bytes()));
            st.class("token-count-limit");
            if let Err(m) = check_picture(&pic) {
                st.fail(n as u64, Case::new(P, "picture", vec![], vec![pic]), m);
            }
        }
    }
    // blank runs alternating with other tokens around the limit (as many separate blank runs as a
    // picture can hold: 18 with a leading or trailing one), for several word lists and run lengths
    {
        let words = ["YYYY", "MM", "DD", "HH24", "MI", "SS", "FF3", "DAY", "MONTH", "DDD", "D", "WW", "W", "DY", "MON", "YY", "-", "/", "AM", ":", "T", "."];
        for nwords in 14..=20usize {
            for lead in [0usize, 1, 3] {
                for trail in [0usize, 1, 2] {
                    for (gap, rot) in [(1usize, 0usize), (2, 5), (7, 11)] {
                        let mut pic = " ".repeat(lead);
                        for k in 0..nwords {
                            if k > 0 {
                                pic.push_str(&" ".repeat(gap));
                            }
                            pic.push_str(words[(k + rot) % words.len()]);
                        }
                        pic.push_str(&" ".repeat(trail));
                        st.evaluations += 1;
                        st.fps.push(hash_bytes(19, pic.as_bytes()));
                        st.class("blank-runs-alternating-with-tokens-at-the-limit");
                        if let Err(m) = check_picture(&pic) {
                            st.fail(nwords as u64, Case::new(P, "picture", vec![], vec![pic]), m);
                        }
                    }
                }
            }
        }
    }
    st.section("near_misses_blank_runs_limits", &mut mark);

    // every letter-case pattern of every name / meridian token, alone and embedded, against
    // every month name, weekday name and both meridians
    {
        let mut pics: Vec<String> = vec![];
        for base in ["MONTH", "MON", "DAY", "DY", "AM", "PM", "A.M.", "P.M."] {
            let letters: Vec<usize> = base.char_indices().filter(|(_, c)| c.is_ascii_alphabetic()).map(|(i, _)| i).collect();
            for mask in 0..(1u32 << letters.len()) {
                let mut b = base.as_bytes().to_vec();
                for (k, &i) in letters.iter().enumerate() {
                    if mask >> k & 1 == 1 {
                        b[i] = b[i].to_ascii_lowercase();
                    }
                }
                let t = String::from_utf8(b).unwrap();
                pics.push(format!("DD {t} YYYY"));
                pics.push(format!("{t}{t}"));
                pics.push(t);
            }
        }
        for pic in pics {
            st.evaluations += name_probes().len() as u64;
            st.nontrivial_enum += name_probes().len() as u64;
            st.class("name-token-case-pattern-x-every-name");
            if let Err(m) = check_picture_names(&pic) {
                st.fail(0, Case::new(P, "picture_names", vec![], vec![pic]), m);
            }
        }
    }
    st.section("name_case_patterns_all_names", &mut mark);

    // E2: random token sequences with random case, long blank runs, optional near miss
    let nm: Vec<String> = NEAR_MISSES.iter().map(|s| s.to_string()).collect();
    let s = pt_run(
        "C19/sequences",
        seed,
        (if ctx.thorough { 32_000_000 } else { 1_200_000 }) / THREADS as u32,
        THREADS,
        || {
            (
                prop_oneof![
                    5 => gen::picture(gen::menu(), 0, 40, true),
                    3 => gen::picture(gen::menu(), 34, 38, true),
                    1 => gen::picture(gen::menu(), 1, 3, true),
                ],
                prop_oneof![4 => Just(usize::MAX), 1 => 0..nm.len()],
                any::<u16>(),
            )
        },
        |(toks, miss, pos): &(Vec<gen::CTok>, usize, u16), st: &mut Stats| {
            let mut pic = String::new();
            let at = if toks.is_empty() { 0 } else { *pos as usize % (toks.len() + 1) };
            for (k, (t, b)) in toks.iter().enumerate() {
                if k == at && *miss != usize::MAX {
                    pic.push_str(&nm[*miss]);
                }
                pic.push_str(&gen::spell_cased(t, *b));
            }
            if at == toks.len() && *miss != usize::MAX {
                pic.push_str(&nm[*miss]);
            }
            st.evaluations += 1;
            let acc = check_picture(&pic)?;
            st.class(if acc { "sequence-accepted" } else { "sequence-rejected" });
            let ntok = tokenize(&pic).map(|t| t.len()).unwrap_or(0);
            if (34..=38).contains(&toks.len()) {
                st.class("34-to-38-tokens-generated");
            }
            if ntok == 36 {
                st.class("exactly-36-tokens");
            }
            if toks.iter().any(|(t, _)| matches!(t, Tok::Blank(n) if *n >= 256)) {
                st.class("has-blank-run-256-or-longer");
            }
            if acc || *miss != usize::MAX {
                st.fps.push(hash_bytes(20, pic.as_bytes()));
            }
            if st.evaluations % 997 == 0 {
                let key = mix64(seed ^ hash_bytes(21, pic.as_bytes())) | 1 << 63;
                let short: String = pic.chars().take(120).collect();
                st.sample(key, || json!({"picture": short, "accepted": acc, "tokens": ntok}));
            }
            Ok(())
        },
        |(toks, miss, pos): &(Vec<gen::CTok>, usize, u16)| {
            let mut pic = String::new();
            let at = if toks.is_empty() { 0 } else { *pos as usize % (toks.len() + 1) };
            for (k, (t, b)) in toks.iter().enumerate() {
                if k == at && *miss != usize::MAX {
                    pic.push_str(&nm[*miss]);
                }
                pic.push_str(&gen::spell_cased(t, *b));
            }
            if at == toks.len() && *miss != usize::MAX {
                pic.push_str(&nm[*miss]);
            }
            Case::new(P, "picture", vec![], vec![pic])
        },
    );
    st.merge(s);
    st.section("random_token_sequences", &mut mark);

    let rep = Report {
        rule: format!("E1: every string of length 0..={maxlen} over the {}-symbol picture alphabet (exhaustive); near-miss spellings alone and embedded; every single-character substitution, insertion (all 128 ASCII values, also inside a token spelling) and deletion at every position of every token spelling and of composite pictures; 14 invisible / ignorable characters (byte order mark, zero-width and non-breaking spaces, separators, control whitespace) at every token boundary of valid pictures; blank runs of every length 1..=700 (alone, between number tokens, and next to name tokens for every month / weekday name) and of length 2^k-1, 2^k, 2^k+1 for k = 8..=20, 2^k+1 up to 2^25 (all three up to 2^27 in the thorough tier: pictures of 128 MiB); 30..=42 repetitions of every documented token spelling (and of token + separator pairs) around the 36-token limit, and 14..=20 words alternating with blank runs (with and without a leading / trailing run: up to 18 separate blank runs in a valid picture). E2: proptest token sequences of 0..=40 tokens (34..=38 over-sampled) with random letter case, blank runs up to 600 and an optional near-miss spelling spliced in. Every rendering goes through both Formatter::format and T::format + write!, and the one-shot Timestamp::parse wrapper must not reject an accepted picture as a format error. Oracle: reference longest-match tokenizer: try_new is Ok iff it accepts (<= 36 tokens), rejection must be Error::InvalidFormat, from Formatter::try_new and from the one-shot parse / format wrappers of all six types (the parse wrappers with an ASCII text and a second text rotating over empty, blank, non-ASCII and long inputs); for accepted pictures the text formatted for the probe 2003-04-09 17:28:56.123456 (every field distinct) must equal the reference rendering of the reference token list (identifies token identity, name case and exact blank-run length); every letter-case pattern of MONTH / MON / DAY / DY / AM / PM / A.M. / P.M. (alone, doubled, embedded) is formatted for 19 probes covering every month name, every weekday name and both meridians. Run under both build profiles. Non-trivial = accepted by the reference, or rejected but one end-deletion away from an accepted picture, or containing a near-miss spelling.", ALPHABET.len()),
        assumptions: vec!["a name token with lower-case first and upper-case second letter, and a mixed-case meridian token, have no style fixed by the statement: compared ignoring case".into()],
        exhaustive: false,
        extra: Default::default(),
    };
    (st, rep)
}
