//! C03 – no safe public call panics, whatever its arguments. Run under both build profiles.

use crate::adapter as ad;
use crate::engine::*;
use crate::gen;
use crate::model::cal::*;
use crate::model::text::*;
use crate::ops::*;
use crate::pools;
use crate::strat;
use proptest::prelude::*;
use serde_json::json;
use sqldatetime::Formatter;

const P: &str = "C03";

pub const INPUT_ALPHABET: &[&str] = &[
    "0", "1", "2", "3", "5", "9", "+", "-", ":", "/", ".", ",", ";", "\\", " ", "T", "A", "a", "P", "M", "m", "J", "u", "n", "e", "S", "D", "y", "\t", "\n", "é", "日", "😀", "\u{0}", "#",
];

pub const FIXED_PICTURES: &[&str] = &[
    "", "YYYY-MM-DD", "YYYY-MM-DD HH24:MI:SS.FF", "HH:MI:SS AM", "DD HH24:MI:SS.FF6", "YYYY-MM", "D", "DDD", "DAY", "DY", "MON", "MONTH", "MM", "DD", "Y", "YY", "YYY", "YYYY", "FF", "FF9", "FF1", "AM", "P.M.", "HH24", "HH12", "MI", "SS", "W", "WW", "T", " ", "-", ":", "/", ".", ",", ";", "\\",
    "YYYYMMDD", "DD/MM/YYYY D", "Dy, DD Mon YYYY HH:MI:SS.FF3 p.m.", "DDD YYYY", "MMDD", "A.M.HH",
];

pub fn fixed_values() -> Vec<Val> {
    vec![
        Val::new(Kind::Date, cal().first as i128),
        Val::new(Kind::Date, cal().last as i128),
        Val::new(Kind::Time, 0),
        Val::new(Kind::Time, US_PER_DAY - 1),
        Val::new(Kind::Ts, ts_min()),
        Val::new(Kind::Ts, ts_max()),
        Val::new(Kind::Ts, -1),
        Val::new(Kind::Ora, ora_max()),
        Val::new(Kind::YM, -YM_MAX),
        Val::new(Kind::YM, YM_MAX),
        Val::new(Kind::YM, 0),
        Val::new(Kind::DT, -DT_MAX),
        Val::new(Kind::DT, DT_MAX),
        Val::new(Kind::DT, 31 * US_PER_DAY + 1),
    ]
}

/// Every entry point that takes a picture and/or an input text, for every type.
pub fn check_text(pic: &str, text: &str) -> Result<u32, String> {
    let mut calls = 0;
    guarded(|| Formatter::try_new(pic).map(|_| ())).map_err(|p| format!("Formatter::try_new({pic:?}): {p}"))?;
    calls += 1;
    for kind in KINDS {
        ad::parse_type(kind, text, pic).map_err(|p| format!("{}::parse({text:?}, {pic:?}): {p}", kind.name()))?;
        ad::parse_direct(kind, text, pic).map_err(|p| format!("Formatter::parse::<{}>({text:?}) with picture {pic:?}: {p}", kind.name()))?;
        calls += 2;
    }
    for (vi, v) in fixed_values().into_iter().enumerate() {
        let lv = ad::to_lib(&v).map_err(|e| format!("fixed value rejected: {e:?}"))?;
        ad::format_lazy(&lv, pic).map_err(|p| format!("{} {}: format({pic:?}) into a String sink: {p}", v.kind.name(), v.raw))?;
        ad::format_direct(&lv, pic).map_err(|p| format!("{} {}: Formatter::format({pic:?}): {p}", v.kind.name(), v.raw))?;
        calls += 2;
        // a sink that itself formats a library value while it is written to (re-entrant use);
        // a few of the fixed values are enough for the no-panic oracle
        if vi % 5 == 0 {
            let (ra, rb, inner) = ad::format_reentrant(&lv, pic).map_err(|p| format!("{} {}: format({pic:?}) into a sink that formats another value while it is written to: {p}", v.kind.name(), v.raw))?;
            if !inner {
                return Err(format!("{} {}: format({pic:?}) into a re-entrant sink: the value formatted inside the sink came out wrong", v.kind.name(), v.raw));
            }
            if let (ad::FmtOut::Text(x), ad::FmtOut::Text(y)) = (&ra, &rb) {
                if x != y {
                    return Err(format!("{} {}: format({pic:?}) into a re-entrant sink: T::format gives {x:?}, Formatter::format gives {y:?}", v.kind.name(), v.raw));
                }
            }
            calls += 2;
        }
        if pic.len() > 100 {
            ad::format_lazy_specs(&lv, pic).map_err(|p| format!("{} {}: Display with a width/precision spec, picture {pic:?}: {p}", v.kind.name(), v.raw))?;
            calls += 8;
        }
    }
    Ok(calls)
}

pub fn check_op(op: &Op, args: &[Arg]) -> Result<(), String> {
    guarded(|| {
        let _ = (op.call)(args);
    })
    .map_err(|p| format!("{}({}): {p}", op.name, describe_args(args)))
}

pub fn eval(case: &Case) -> Verdict {
    let r: Result<(), String> = match case.kind.as_str() {
        "text" => check_text(&case.s[0], &case.s[1]).map(|_| ()),
        // older replay shape: s = [picture, text], i = [kind]
        "parse" => check_text(&case.s[0], &case.s[1]).map(|_| ()),
        "format" => {
            let v = Val::new(Kind::from_index(case.i[0] as usize), case.i[1]);
            match ad::to_lib(&v) {
                Err(e) => Err(format!("value rejected: {e:?}")),
                Ok(lv) => ad::format_direct(&lv, &case.s[0]).and_then(|_| ad::format_lazy(&lv, &case.s[0])).and_then(|_| ad::format_lazy_specs(&lv, &case.s[0])).map(|_| ()),
            }
        }
        "op" => {
            let ops = all_ops();
            match ops.iter().find(|o| o.name == case.s[0]) {
                None => Err(format!("unknown op {}", case.s[0])),
                Some(op) => {
                    let args: Vec<Arg> = op.args.iter().zip(case.i.iter()).map(|(k, x)| arg_from_i128(*k, *x)).collect();
                    check_op(op, &args)
                }
            }
        }
        k => Err(format!("unknown case kind {k}")),
    };
    match r {
        Ok(()) => Verdict::Pass,
        Err(m) => Verdict::Fail(m),
    }
}

fn nth_over(alpha: &[&str], mut idx: u64, len: usize) -> String {
    let n = alpha.len() as u64;
    let mut parts = vec![""; len];
    for k in (0..len).rev() {
        parts[k] = alpha[(idx % n) as usize];
        idx /= n;
    }
    parts.concat()
}

fn mutate_text(s: &str, ops: &[(u8, u16, u16)]) -> String {
    let mut b: Vec<char> = s.chars().collect();
    const INS: [&str; 14] = ["0", "9", "-", "+", " ", ":", ".", "é", "日", "\t", "999999999999", "A", "M", "\u{0}"];
    for (kind, pos, what) in ops {
        let p = if b.is_empty() { 0 } else { *pos as usize % (b.len() + 1) };
        match kind % 7 {
            0 if p < b.len() => b[p] = INS[*what as usize % INS.len()].chars().next().unwrap(),
            1 => {
                for (k, c) in INS[*what as usize % INS.len()].chars().enumerate() {
                    b.insert((p + k).min(b.len()), c);
                }
            }
            2 if p < b.len() => {
                b.remove(p);
            }
            3 if p < b.len() => {
                let c = b[p];
                b.insert(p, c);
            }
            4 => b.truncate(p),
            5 => {
                let run: String = "0123456789".chars().cycle().take(1 + *what as usize % 40).collect();
                for (k, c) in run.chars().enumerate() {
                    b.insert((p + k).min(b.len()), c);
                }
            }
            _ => {}
        }
    }
    b.into_iter().collect()
}

pub fn run(ctx: &Ctx) -> (Stats, Report) {
    let mut st = Stats::new();
    let mut mark = (0, 0);
    run_replays(P, &mut st, &eval);
    st.section("replays", &mut mark);
    let seed = ctx.seed;

    let value_pools: Vec<Vec<Val>> = KINDS.iter().map(|k| pools::pool(*k, 0, 0)).collect();
    // 1a: every short string as a picture, against fixed inputs
    let alpha: Vec<String> = super::c19::ALPHABET.iter().map(|b| (*b as char).to_string()).collect();
    let alpha_ref: Vec<&str> = alpha.iter().map(|s| s.as_str()).collect();
    let fixed_inputs = ["", "1", "2021-12-31 23:59:59.123456", "+12 PM", "-5 10:20:30.5", "Monday January 01", "0", "+1", "-1"];
    let plen = if ctx.thorough { 4 } else { 3 };
    for len in 0..=plen {
        let total = (alpha_ref.len() as u64).pow(len as u32);
        let aref = &alpha_ref;
        let s = par_sweep(total, 256, |range, st| {
            for idx in range {
                let pic = nth_over(aref, idx, len);
                let compiled = tokenize(&pic).is_some();
                for (k, text) in fixed_inputs.iter().enumerate() {
                    if !compiled && k > 1 {
                        break; // a rejected picture never reaches the input
                    }
                    match check_text(&pic, text) {
                        Ok(n) => {
                            st.evaluations += n as u64;
                            if compiled && !text.is_empty() {
                                st.nontrivial_enum += 1;
                            }
                        }
                        Err(m) => {
                            st.fail(idx, Case::new(P, "text", vec![], vec![pic.clone(), text.to_string()]), m);
                            return;
                        }
                    }
                }
            }
        });
        st.merge(s);
    }
    st.exhaustive_sections.push(format!("every string of length 0..={plen} over the picture alphabet as a picture x {} fixed inputs, all entry points of all six types", fixed_inputs.len()));
    st.section("all_short_pictures", &mut mark);

    // 1a': the same short strings placed after / before k one-character tokens, k around the
    // 36-token limit: a token that expands into several fields, or a counter that is checked once per
    // token, only misbehaves when the field buffer is nearly full
    {
        let slen = if ctx.thorough { 3 } else { 2 };
        let fillers: [&[u8]; 2] = [b"-", b"-:/.,;"];
        let ks: Vec<usize> = (28..=38).collect();
        let mut shorts: Vec<String> = vec![];
        for len in 0..=slen {
            for idx in 0..(alpha_ref.len() as u64).pow(len as u32) {
                shorts.push(nth_over(&alpha_ref, idx, len));
            }
        }
        let total = (shorts.len() * ks.len() * 4) as u64;
        let (shorts, ks) = (&shorts, &ks);
        let s = par_sweep(total, 64, |range, st| {
            for idx in range {
                let sh = &shorts[idx as usize / (ks.len() * 4)];
                let k = ks[(idx as usize / 4) % ks.len()];
                let f = fillers[idx as usize % 2];
                let fill: String = (0..k).map(|j| f[j % f.len()] as char).collect();
                let pic = if (idx / 2) % 2 == 0 { format!("{fill}{sh}") } else { format!("{sh}{fill}") };
                let compiled = tokenize(&pic).is_some();
                for text in ["", "2021-12-31 23:59:59.123456"] {
                    match check_text(&pic, text) {
                        Ok(n) => {
                            st.evaluations += n as u64;
                            if compiled {
                                st.nontrivial_enum += 1;
                                st.class("short-picture-next-to-a-nearly-full-token-buffer-compiles");
                            }
                        }
                        Err(m) => {
                            st.fail(idx, Case::new(P, "text", vec![], vec![pic.clone(), text.to_string()]), m);
                            return;
                        }
                    }
                }
            }
        });
        st.merge(s);
        st.exhaustive_sections.push(format!("every string of length 0..={slen} over the picture alphabet before and after 28..=38 one-character tokens (two fillers)"));
    }
    st.section("short_pictures_at_the_token_limit", &mut mark);

    // 1a'': every documented token spelling with every 0..2-character string before or after it
    // (prefixes / suffixes that a new modifier, alias or element would be spelled with), against
    // signed, short and empty inputs
    {
        let mut toks: Vec<String> = crate::gen::menu().iter().map(|t| crate::model::text::spell(&[t.clone()])).collect();
        toks.extend(["HH".to_string(), "T".to_string(), "YYYY-MM-DD".to_string(), "HH24:MI:SS".to_string()]);
        toks.sort();
        toks.dedup();
        let mut affixes: Vec<String> = vec![];
        for len in 0..=2 {
            for idx in 0..(alpha_ref.len() as u64).pow(len as u32) {
                affixes.push(nth_over(&alpha_ref, idx, len));
            }
        }
        // ... plus every printable ASCII character and every pair of capital letters (spellings
        // outside today's picture alphabet)
        for c in 0x20u8..0x7f {
            affixes.push((c as char).to_string());
        }
        for a in b'A'..=b'Z' {
            for b in b'A'..=b'Z' {
                affixes.push(format!("{}{}", a as char, b as char));
            }
        }
        affixes.sort();
        affixes.dedup();
        let inputs = ["+1", "-12", "1", "", "2021-03-+7"];
        let total = (toks.len() * affixes.len() * 2) as u64;
        let (toks, affixes) = (&toks, &affixes);
        let s = par_sweep(total, 64, |range, st| {
            for idx in range {
                let t = &toks[idx as usize / (affixes.len() * 2)];
                let a = &affixes[(idx as usize / 2) % affixes.len()];
                let pic = if idx % 2 == 0 { format!("{a}{t}") } else { format!("{t}{a}") };
                let compiled = tokenize(&pic).is_some();
                for text in inputs {
                    match check_text(&pic, text) {
                        Ok(n) => {
                            st.evaluations += n as u64;
                            if compiled && !text.is_empty() {
                                st.nontrivial_enum += 1;
                            }
                        }
                        Err(m) => {
                            st.fail(idx, Case::new(P, "text", vec![], vec![pic.clone(), text.to_string()]), m);
                            return;
                        }
                    }
                }
            }
        });
        st.merge(s);
        st.exhaustive_sections.push("every documented token spelling with every string of length 0..=2 over the picture alphabet, every printable ASCII character and every pair of capital letters before or after it x 5 signed / short / empty inputs".into());
    }
    st.section("affixed_tokens", &mut mark);

    // 1a: texts at the range limits (interval fields in several orders, carrying fractions, the
    // 12-hour respelling of the last second of the day), shared with C02, through every parse
    // entry point of every type: a value or an Error, never a panic (in either build profile)
    {
        for (k, (_, pic, text)) in super::c02::limit_texts().iter().enumerate() {
            st.evaluations += 1;
            st.nontrivial_enum += 1;
            st.class("limit-text");
            if let Err(m) = check_text(pic, text) {
                st.fail(k as u64, Case::new(P, "text", vec![], vec![pic.clone(), text.clone()]), m);
                break;
            }
        }
        st.exhaustive_sections.push("interval / time / timestamp texts at the range limits in several field orders with carrying fractions x every parse entry point of the 6 types".into());
    }
    st.section("limit_texts", &mut mark);

    // 1b: every short string over the input alphabet as an input, against fixed pictures
    let ilen = if ctx.thorough { 4 } else { 3 };
    for len in 0..=ilen {
        let total = (INPUT_ALPHABET.len() as u64).pow(len as u32);
        let s = par_sweep(total, 64, |range, st| {
            for idx in range {
                let text = nth_over(INPUT_ALPHABET, idx, len);
                for pic in FIXED_PICTURES {
                    for kind in KINDS {
                        st.evaluations += 1;
                        if let Err(p) = ad::parse_type(kind, &text, pic) {
                            st.fail(idx, Case::new(P, "text", vec![], vec![pic.to_string(), text.clone()]), format!("{}::parse({text:?}, {pic:?}): {p}", kind.name()));
                            return;
                        }
                    }
                    if !text.is_empty() {
                        st.nontrivial_enum += 1;
                    }
                }
            }
        });
        st.merge(s);
    }
    st.exhaustive_sections.push(format!("every string of length 0..={ilen} over a {}-symbol input alphabet (digits, signs, punctuation, letters, control whitespace, multi-byte characters) as an input x {} fixed pictures x 6 types", INPUT_ALPHABET.len(), FIXED_PICTURES.len()));
    st.section("all_short_inputs", &mut mark);

    // 2: grammar pictures x inputs obtained by formatting a pool value and mutating the text
    let s = pt_run(
        "C03/grammar",
        seed,
        (if ctx.thorough { 8_000_000 } else { 320_000 }) / THREADS as u32,
        THREADS,
        || {
            (
                0usize..6,
                prop_oneof![6 => gen::picture(gen::menu(), 0, 40, true), 2 => gen::picture(gen::menu(), 1, 6, false)],
                proptest::collection::vec((any::<u8>(), any::<u16>(), any::<u16>()), 0..=3),
                any::<u32>(),
            )
        },
        |(ki, toks, muts, vsel): &(usize, Vec<gen::CTok>, Vec<(u8, u16, u16)>, u32), st: &mut Stats| {
            let kind = KINDS[*ki];
            // restrict to tokens applicable to the kind half of the time so that formatting succeeds
            let toks: Vec<gen::CTok> = if vsel & 1 == 0 { toks.iter().filter(|t| applicable(kind, &t.0)).cloned().collect() } else { toks.clone() };
            let pic = gen::spell_all(&toks);
            let pool = &value_pools[kind.index()];
            let v = pool[((*vsel >> 1) as u64 * pool.len() as u64 >> 31) as usize % pool.len()];
            let lv = ad::to_lib(&v).map_err(|e| format!("pool value rejected: {e:?}"))?;
            // formatting the pool value itself must not panic either
            let base = match ad::format_direct(&lv, &pic).map_err(|p| format!("{} {}: Formatter::format({pic:?}): {p}", v.kind.name(), v.raw))? {
                ad::FmtOut::Text(t) => t,
                _ => "2021-12-31 23:59:59.5 PM Friday".to_string(),
            };
            ad::format_lazy(&lv, &pic).map_err(|p| format!("{} {}: format({pic:?}) into a String sink: {p}", v.kind.name(), v.raw))?;
            // the Display value written with width / precision / alignment specs
            ad::format_lazy_specs(&lv, &pic).map_err(|p| format!("{} {}: write!(\"{{:<spec>}}\", value.format({pic:?})) with a width/precision spec: {p}", v.kind.name(), v.raw))?;
            st.class("display-with-format-specs");
            let text = mutate_text(&base, muts);
            let n = check_text(&pic, &text)?;
            st.evaluations += n as u64;
            if toks.iter().any(|t| matches!(t.0, Tok::Blank(n) if n >= 256)) {
                st.class("picture-with-blank-run-256-or-longer");
            }
            if !text.is_ascii() {
                st.class("non-ascii-input");
            }
            if text.len() > 100 {
                st.class("input-longer-than-100-bytes");
            }
            if tokenize(&pic).is_some() && !text.is_empty() {
                st.fps.push(hash_bytes(hash_bytes(*ki as u64, pic.as_bytes()), text.as_bytes()));
            }
            if st.evaluations % 9973 < n as u64 {
                let key = mix64(seed ^ hash_bytes(3, text.as_bytes()));
                let shortp: String = pic.chars().take(80).collect();
                st.sample(key, || json!({"picture": shortp, "input": text.chars().take(80).collect::<String>()}));
            }
            Ok(())
        },
        |(ki, toks, muts, vsel): &(usize, Vec<gen::CTok>, Vec<(u8, u16, u16)>, u32)| {
            let kind = KINDS[*ki];
            let toks: Vec<gen::CTok> = if vsel & 1 == 0 { toks.iter().filter(|t| applicable(kind, &t.0)).cloned().collect() } else { toks.clone() };
            let pic = gen::spell_all(&toks);
            let pool = &value_pools[kind.index()];
            let v = pool[((*vsel >> 1) as u64 * pool.len() as u64 >> 31) as usize % pool.len()];
            let base = match ad::to_lib(&v).ok().and_then(|lv| ad::format_direct(&lv, &pic).ok()) {
                Some(ad::FmtOut::Text(t)) => t,
                _ => "2021-12-31 23:59:59.5 PM Friday".to_string(),
            };
            Case::new(P, "text", vec![], vec![pic, mutate_text(&base, muts)])
        },
    );
    st.merge(s);
    st.section("grammar_pictures_x_mutated_inputs", &mut mark);

    // 1c: pictures and inputs containing blank / digit runs whose length sits at 2^k (k = 8..=20)
    for k in 8..=20u32 {
        for n in [(1usize << k) - 1, 1 << k, (1 << k) + 1] {
            let cases = [
                (" ".repeat(n), "1".to_string()),
                (format!("YYYY{}MM", " ".repeat(n)), "2021 07".to_string()),
                ("YYYY MM".to_string(), format!("2021{}07", " ".repeat(n))),
                ("YYYY-MM-DD".to_string(), "9".repeat(n)),
                ("FF".to_string(), "1".repeat(n)),
            ];
            for (pic, text) in cases {
                match check_text(&pic, &text) {
                    Ok(c) => {
                        st.evaluations += c as u64;
                        st.fps.push(hash_ints(0x3c0, &[k as i128, n as i128, pic.len() as i128, text.len() as i128]));
                        st.class("run-at-binary-boundary-length");
                    }
                    Err(m) => {
                        let m: String = m.chars().filter(|c| *c != ' ' || true).take(300).collect();
                        st.fail(n as u64, Case::new(P, "text", vec![], vec![pic, text]), format!("run length {n}: {}", m.split("\"").next().unwrap_or("")));
                    }
                }
            }
        }
    }
    st.section("binary_boundary_run_lengths", &mut mark);

    // 1d: long inputs / pictures with a multi-byte character across every byte offset: after a
    // valid prefix and a wrong separator, after a valid prefix and the right separator, after
    // nothing; the same fillers inside the picture
    {
        let maxn: u64 = if ctx.thorough { 6000 } else { 1100 };
        let s = par_sweep(maxn + 1, 8, |range, st| {
            for n in range {
                let n = n as usize;
                for wide in ["é", "€", "😀"] {
                    let fill = ["a", " ", "7"][n % 3].repeat(n);
                    let cases = [
                        ("YYYY-MM-DD".to_string(), format!("2024x{fill}{wide}{}", "b".repeat(20))),
                        ("YYYY/MM/DD HH24:MI:SS".to_string(), format!("2024/02-{fill}{wide}")),
                        ("HH24:MI:SS.FF".to_string(), format!("12:30{fill}{wide}00")),
                        ("DD HH24:MI".to_string(), format!("{fill}{wide}")),
                        (format!("YYYY{}{wide}MM", " ".repeat(n)), "2021 07".to_string()),
                        (format!("{}{wide}", "-".repeat(n % 37)), format!("{fill}{wide}")),
                    ];
                    for (pic, text) in cases {
                        match check_text(&pic, &text) {
                            Ok(c) => {
                                st.evaluations += c as u64;
                                st.nontrivial_enum += c as u64;
                                st.class("long-text-with-multibyte-char-at-every-offset");
                            }
                            Err(m) => {
                                st.fail(n as u64, Case::new(P, "text", vec![], vec![pic, text]), format!("filler length {n}: {}", m.chars().rev().take(200).collect::<String>().chars().rev().collect::<String>()));
                                return;
                            }
                        }
                    }
                }
            }
        });
        st.merge(s);
    }
    // 1e: bracketing syntaxes other date libraries use for literal text (quotes, brackets,
    // braces, escapes) around ASCII and multi-byte contents of every length 0..=40, inside
    // otherwise valid pictures and inputs
    {
        let brackets = [("\"", "\""), ("'", "'"), ("[", "]"), ("{", "}"), ("(", ")"), ("<", ">"), ("\\", ""), ("%", "%"), ("`", "`")];
        let s = par_sweep(41, 1, |range, st| {
            for m in range {
                for unit in ["x", "é", "日", "😀", " ", "9"] {
                    let body = unit.repeat(m as usize);
                    for (open, close) in brackets {
                        let cases = [
                            (format!("DD{open}{body}{close}YYYY"), format!("05{body}2021")),
                            (format!("{open}{body}{close}"), body.clone()),
                            (format!("YYYY-MM-DD {open}{body}"), format!("2021-03-04 {body}")),
                            ("YYYY-MM-DD".to_string(), format!("2021{open}{body}{close}03-04")),
                        ];
                        for (pic, text) in cases {
                            match check_text(&pic, &text) {
                                Ok(c) => {
                                    st.evaluations += c as u64;
                                    st.nontrivial_enum += c as u64;
                                    st.class("bracketed-literal-text");
                                }
                                Err(e) => {
                                    st.fail(m, Case::new(P, "text", vec![], vec![pic, text]), e.chars().take(400).collect());
                                    return;
                                }
                            }
                        }
                    }
                }
            }
        });
        st.merge(s);
    }
    st.section("long_non_ascii_texts", &mut mark);

    // 2a: structured inputs from the constructive speller (valid lenient spellings and
    // single-component perturbations of all six types), optionally mutated further: these get
    // past the first fields and reach the cross-checks at the end of parsing
    let s = pt_run(
        "C03/speller",
        seed,
        (if ctx.thorough { 6_000_000 } else { 400_000 }) / THREADS as u32,
        THREADS,
        || {
            (
                0usize..6,
                0usize..6,
                proptest::collection::vec(any::<u32>(), 96),
                0u32..=crate::speller::PERTURBS.len() as u32,
                proptest::collection::vec((any::<u8>(), any::<u16>(), any::<u16>()), 0..=2),
            )
        },
        |(ki, vi, choices, neg, muts): &(usize, usize, Vec<u32>, u32, Vec<(u8, u16, u16)>), st: &mut Stats| {
            let kind = KINDS[*ki];
            let pool = &value_pools[kind.index()];
            let raw = pool[(choices[95] as usize) % pool.len()].raw;
            let _ = vi;
            let b = crate::speller::build(kind, raw, choices, *neg);
            let text = mutate_text(&b.text, muts);
            let n = check_text(&b.picture, &text)?;
            st.evaluations += n as u64;
            st.class(if b.negative { "speller-perturbed-input" } else { "speller-valid-input" });
            if !muts.is_empty() {
                st.class("speller-input-mutated-further");
            }
            st.fps.push(hash_bytes(hash_bytes(*ki as u64 + 0x3a0, b.picture.as_bytes()), text.as_bytes()));
            if st.evaluations % 9973 < n as u64 {
                let key = mix64(seed ^ hash_bytes(33, text.as_bytes()));
                st.sample(key, || json!({"picture": b.picture, "input": text, "from": "speller"}));
            }
            Ok(())
        },
        |(ki, _vi, choices, neg, muts): &(usize, usize, Vec<u32>, u32, Vec<(u8, u16, u16)>)| {
            let kind = KINDS[*ki];
            let pool = &value_pools[kind.index()];
            let raw = pool[(choices[95] as usize) % pool.len()].raw;
            let b = crate::speller::build(kind, raw, choices, *neg);
            Case::new(P, "text", vec![], vec![b.picture, mutate_text(&b.text, muts)])
        },
    );
    st.merge(s);
    st.section("speller_built_inputs", &mut mark);

    // 2b: every pool value of every type formatted with every single token and the fixed pictures
    let mut pics: Vec<String> = FIXED_PICTURES.iter().map(|s| s.to_string()).collect();
    for t in gen::menu() {
        pics.push(spell(&[t]));
    }
    pics.sort();
    pics.dedup();
    for kind in KINDS {
        let mut vals = pools::pool(kind, seed, if ctx.thorough { 4000 } else { 800 });
        if kind == Kind::DT {
            // every whole-day count around the two-digit / table boundaries, both signs
            for d in (0..=400i128).chain([999, 1000, 9_999, 10_000, 99_999_999, 100_000_000]) {
                for extra in [0i128, 1, US_PER_DAY - 1] {
                    let x = d * US_PER_DAY + extra;
                    if x <= DT_MAX {
                        vals.push(Val::new(kind, x));
                        vals.push(Val::new(kind, -x));
                    }
                }
            }
        }
        if kind == Kind::YM {
            for m in (0..=300i128).chain([11_999, 12_000, 119_999, 120_000, 1_199_999, 1_200_000]) {
                vals.push(Val::new(kind, m));
                vals.push(Val::new(kind, -m));
            }
        }
        let (vref, pref) = (&vals, &pics);
        let s = par_sweep(vals.len() as u64, 16, |range, st| {
            for k in range {
                let v = &vref[k as usize];
                let lv = match ad::to_lib(v) {
                    Ok(x) => x,
                    Err(_) => continue,
                };
                for pic in pref.iter() {
                    st.evaluations += 2;
                    if let Err(p) = ad::format_lazy_specs(&lv, pic) {
                        st.fail(k, Case::new(P, "format", vec![v.kind.index() as i128, v.raw], vec![pic.clone()]), format!("{} {}: Display with a width/precision spec, picture {pic:?}: {p}", v.kind.name(), v.raw));
                        return;
                    }
                    for r in [ad::format_direct(&lv, pic), ad::format_lazy(&lv, pic)] {
                        if let Err(p) = r {
                            st.fail(k, Case::new(P, "format", vec![v.kind.index() as i128, v.raw], vec![pic.clone()]), format!("{} {}: formatting with picture {pic:?}: {p}", v.kind.name(), v.raw));
                            return;
                        }
                    }
                    st.fps.push(hash_bytes(hash_ints(v.kind.index() as u64 + 0x3b0, &[v.raw]), pic.as_bytes()));
                }
            }
        });
        st.merge(s);
    }
    st.section("pool_values_x_token_pictures", &mut mark);

    // 3: the operation table with extreme scalars and all pool values
    let ops = all_ops();
    let budget: u64 = if ctx.thorough { 80_000_000 } else { 6_000_000 };
    for (oi, op) in ops.iter().enumerate() {
        let mut pools_: Vec<Vec<Arg>> = op.args.iter().enumerate().map(|(k, ak)| arg_pool(*ak, seed, if k == 0 { PoolSize::Full } else { PoolSize::Small })).collect();
        let mut total: u64 = pools_.iter().map(|p| p.len() as u64).product();
        let mut cap = 64usize;
        while total > budget && cap >= 6 {
            for p in pools_.iter_mut().skip(1) {
                *p = super::c02::thin(std::mem::take(p), cap);
            }
            total = pools_.iter().map(|p| p.len() as u64).product();
            cap = cap * 2 / 3;
        }
        let s = par_sweep(total, 4096, |range, st| {
            for idx in range {
                let mut rem = idx;
                let mut args = Vec::with_capacity(pools_.len());
                for p in pools_.iter().rev() {
                    args.push(p[(rem % p.len() as u64) as usize]);
                    rem /= p.len() as u64;
                }
                args.reverse();
                st.evaluations += 1;
                let extreme = args.iter().any(|a| match a {
                    Arg::F64(x) => !x.is_finite() || x.abs() > 1e15 || (x.abs() < 1e-9 && *x != 0.0),
                    Arg::I32(x) => x.unsigned_abs() > 4_000_000,
                    Arg::I64(x) => x.unsigned_abs() > (1u64 << 62),
                    Arg::U32(x) => *x > 1_000_000_000,
                    Arg::V(_) => false,
                });
                if extreme {
                    st.fps.push(hash_ints(oi as u64 + 0x300, &args.iter().map(arg_to_i128).collect::<Vec<_>>()));
                    st.class("extreme-scalar-operand");
                }
                if let Err(m) = check_op(op, &args) {
                    st.fail(idx, Case::new(P, "op", args.iter().map(arg_to_i128).collect(), vec![op.name.to_string()]), m);
                    return;
                }
            }
        });
        st.merge(s);
    }
    // random scalars for scalar rows
    for (oi, op) in ops.iter().enumerate() {
        if op.args.len() > 2 || !op.args.iter().any(|a| !matches!(a, ArgKind::K(_))) {
            continue;
        }
        let strat_for = |k: ArgKind| -> BoxedStrategy<i128> {
            match k {
                ArgKind::K(kind) => strat::raw(kind),
                ArgKind::I32 => any::<i32>().prop_map(|x| x as i128).boxed(),
                ArgKind::I64 => any::<i64>().prop_map(|x| x as i128).boxed(),
                ArgKind::U32 => any::<u32>().prop_map(|x| x as i128).boxed(),
                ArgKind::F64 => prop_oneof![strat::any_f64().prop_map(f2i), any::<u64>().prop_map(|b| b as i128)].boxed(),
            }
        };
        let a0 = op.args[0];
        let a1 = op.args.get(1).copied();
        let s = pt_run(
            &format!("C03/{}", op.name),
            seed,
            (if ctx.thorough { 1_000_000 } else { 40_000 }) / THREADS as u32 + 1,
            THREADS,
            || (strat_for(a0), match a1 { Some(k) => strat_for(k), None => Just(0i128).boxed() }),
            |(x, y): &(i128, i128), st: &mut Stats| {
                let mut args = vec![arg_from_i128(a0, *x)];
                if let Some(k) = a1 {
                    args.push(arg_from_i128(k, *y));
                }
                st.evaluations += 1;
                st.fps.push(hash_ints(oi as u64 + 0x300, &[*x, *y]));
                check_op(op, &args)
            },
            |(x, y): &(i128, i128)| {
                let mut i = vec![*x];
                if a1.is_some() {
                    i.push(*y);
                }
                Case::new(P, "op", i, vec![op.name.to_string()])
            },
        );
        st.merge(s);
    }
    st.section("operation_table_extreme_operands", &mut mark);

    let rep = Report {
        rule: format!("Oracle: catch_unwind - every call returns (a value or an Error). (1) every string up to length {plen} over the picture alphabet as a picture x fixed inputs, and every string up to length {ilen} over a {}-symbol input alphabet (digits, signs, punctuation, letters, tab, newline, NUL, multi-byte characters) as an input x {} fixed pictures, through Formatter::try_new, T::parse, Formatter::parse of all six types and format of 14 boundary values into a String sink (an inapplicable field must surface as Err from the sink, not a panic) and into a re-entrant sink that formats another library value on every chunk it receives; (1b') every documented token spelling with every string up to length 2 over the picture alphabet, every printable ASCII character and every pair of capital letters before or after it x signed / short / empty inputs; (1c) every string up to length 2 (3 in thorough) over the picture alphabet before and after 28..=38 one-character tokens; (2) proptest grammar pictures of 0..=40 tokens with blank runs up to 600 and random letter case x inputs obtained by formatting a pool value and applying 0..3 mutations (replace / insert / delete / duplicate a character, splice a digit run, a sign, a multi-byte character, control whitespace, truncate); (2b) blank / digit runs of length 2^k-1, 2^k, 2^k+1 (k = 8..20) and long texts / pictures (filler of every length 0..=1100, 6000 in thorough) with a 2-, 3- or 4-byte character across every byte offset, after a valid prefix with a wrong or right separator, and nine bracketing syntaxes (quotes, brackets, braces, escapes) around ASCII / multi-byte contents of every length 0..=40; (3) every row of the {}-row operation table x pool values x extreme scalars (i32::MIN, u32::MAX, NaN, infinities, subnormals, 1e300) and proptest-generated scalars. Run under the release profile and under a profile with overflow checks and debug assertions. Non-trivial = the picture compiles and the input is non-empty, or a row with an extreme scalar operand.", INPUT_ALPHABET.len(), FIXED_PICTURES.len(), ops.len()),
        assumptions: vec![
            "unsafe fns and the documented-to-panic WeekDay::from(usize) / Month::from(usize) are outside the quantifier".into(),
            "formatting is observed through write!(&mut String, ..); ToString::to_string() on a Display that reports an error panics inside std by std's contract and is never called".into(),
        ],
        exhaustive: false,
        extra: Default::default(),
    };
    (st, rep)
}
