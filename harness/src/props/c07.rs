//! C07 – a timestamp is exactly its (date, time-of-day) pair, before and after 1970.

use crate::adapter as ad;
use crate::engine::*;
use crate::model::cal::*;
use crate::pools;
use serde_json::json;
use sqldatetime::{DateTime, Error, Time, Timestamp};
use std::cmp::Ordering;
use std::hash::{Hash, Hasher};

const P: &str = "C07";

fn h64<T: Hash>(x: &T) -> u64 {
    // DefaultHasher::new() uses fixed keys
    #[allow(deprecated)]
    let mut h = std::collections::hash_map::DefaultHasher::new();
    x.hash(&mut h);
    h.finish()
}

/// (date n, time t) -> timestamp and back.
pub fn check_pair(n: i32, t: i64) -> Result<(), String> {
    let c = cal();
    let r = *c.row(n as i64).ok_or("model: date out of range")?;
    let want = n as i128 * US_PER_DAY + t as i128;
    let hour = (t as i128 / US_PER_HOUR) as i32;
    let minute = (t as i128 % US_PER_HOUR / US_PER_MIN) as i32;
    let sec_us = t as i128 % US_PER_MIN;
    let second = sec_us as f64 / 1_000_000.0;
    guarded(|| -> Result<(), String> {
        let d = ad::date(n);
        let tm = ad::time(t);
        let ts = Timestamp::new(d, tm);
        if ts.usecs() as i128 != want {
            return Err(format!("Timestamp::new(day {n}, time {t}).usecs() = {}, expected {want}", ts.usecs()));
        }
        let (d2, t2) = ts.extract();
        if d2 != d || t2 != tm || d2.days() != n || t2.usecs() != t {
            return Err(format!("extract() of timestamp {want} = (day {}, time {}), expected (day {n}, time {t})", d2.days(), t2.usecs()));
        }
        let t3 = Time::from(ts);
        if t3.usecs() != t {
            return Err(format!("Time::from(timestamp {want}) = {}, expected {t}", t3.usecs()));
        }
        if DateTime::date(&ts).map(|x| x.days()) != Some(n) {
            return Err(format!("DateTime::date(timestamp {want}) = {:?}, expected day {n}", DateTime::date(&ts).map(|x| x.days())));
        }
        if ts.year() != Some(r.y) || ts.month() != Some(r.m as i32) || ts.day() != Some(r.d as i32) {
            return Err(format!("year/month/day of timestamp {want} = {:?}/{:?}/{:?}, expected {}-{}-{}", ts.year(), ts.month(), ts.day(), r.y, r.m, r.d));
        }
        if ts.hour() != Some(hour) || ts.minute() != Some(minute) {
            return Err(format!("hour/minute of timestamp {want} = {:?}/{:?}, expected {hour}/{minute}", ts.hour(), ts.minute()));
        }
        match ts.second() {
            Some(s) if s.to_bits() == second.to_bits() => {}
            other => return Err(format!("second() of timestamp {want} = {other:?}, expected {second}")),
        }
        if d.and_time(tm) != ts || d.add_time(tm) != ts {
            return Err("Date::and_time / add_time differ from Timestamp::new".into());
        }
        let (hh, mi, ss, us) = (hour as u32, minute as u32, (sec_us / US_PER_SEC) as u32, (sec_us % US_PER_SEC) as u32);
        match d.and_hms(hh, mi, ss, us) {
            Ok(x) if x == ts => {}
            other => return Err(format!("Date::and_hms({hh},{mi},{ss},{us}) = {:?}, expected {want}", other.map(|x| x.usecs()))),
        }
        if t == 0 && Timestamp::from(d) != ts {
            return Err("Timestamp::from(date) is not the date's midnight".into());
        }
        match Timestamp::try_from_usecs(want as i64) {
            Ok(x) if x == ts && h64(&x) == h64(&ts) => {}
            _ => return Err(format!("try_from_usecs({want}) is not equal to / does not hash like Timestamp::new(..)")),
        }
        // the Oracle-style date of the same whole second reports the same fields
        if t % 1_000_000 == 0 {
            let o = sqldatetime::OracleDate::new(d, tm);
            if o.usecs() as i128 != want {
                return Err(format!("OracleDate::new(day {n}, time {t}).usecs() = {}, expected {want}", o.usecs()));
            }
            let (od, ot) = o.extract();
            if od != d || ot != tm || Time::from(o) != tm || DateTime::date(&o) != Some(d) {
                return Err(format!("OracleDate {want}: extract / Time::from / date() = (day {}, time {}), expected (day {n}, time {t})", od.days(), ot.usecs()));
            }
            if o.year() != Some(r.y) || o.month() != Some(r.m as i32) || o.day() != Some(r.d as i32) || o.hour() != Some(hour) || o.minute() != Some(minute) || o.second().map(|s| s.to_bits()) != Some(second.to_bits()) {
                return Err(format!("OracleDate {want}: accessors {:?}-{:?}-{:?} {:?}:{:?}:{:?}, expected {}-{}-{} {hour}:{minute}:{second}", o.year(), o.month(), o.day(), o.hour(), o.minute(), o.second(), r.y, r.m, r.d));
            }
        }
        Ok(())
    })
    .unwrap_or_else(|p| Err(p))
    .map_err(|m| format!("date {:04}-{:02}-{:02} (day {n}) time {t}us: {m}", r.y, r.m, r.d))
}

/// Time of day <-> (h, m, s, us)
pub fn check_time(t: i64) -> Result<(), String> {
    let x = t as i128;
    let (h, mi, s, us) = ((x / US_PER_HOUR) as u32, (x % US_PER_HOUR / US_PER_MIN) as u32, (x % US_PER_MIN / US_PER_SEC) as u32, (x % US_PER_SEC) as u32);
    guarded(|| -> Result<(), String> {
        let a = Time::try_from_hms(h, mi, s, us).map_err(|e| format!("try_from_hms({h},{mi},{s},{us}) = Err({e:?})"))?;
        if a.usecs() != t {
            return Err(format!("try_from_hms({h},{mi},{s},{us}).usecs() = {}, expected {t}", a.usecs()));
        }
        if !Time::is_valid(h, mi, s, us) {
            return Err(format!("is_valid({h},{mi},{s},{us}) = false"));
        }
        let b = Time::try_from_usecs(t).map_err(|e| format!("try_from_usecs({t}) = Err({e:?})"))?;
        if b != a || h64(&a) != h64(&b) {
            return Err("try_from_usecs and try_from_hms give unequal values / hashes for the same time".into());
        }
        if a.extract() != (h, mi, s, us) {
            return Err(format!("extract() = {:?}, expected {:?}", a.extract(), (h, mi, s, us)));
        }
        let sec = (x % US_PER_MIN) as f64 / 1_000_000.0;
        if a.hour() != Some(h as i32) || a.minute() != Some(mi as i32) || a.second().map(|v| v.to_bits()) != Some(sec.to_bits()) {
            return Err(format!("hour/minute/second accessors = {:?}/{:?}/{:?}, expected {h}/{mi}/{sec}", a.hour(), a.minute(), a.second()));
        }
        if a.year().is_some() || a.month().is_some() || a.day().is_some() || DateTime::date(&a).is_some() {
            return Err("a time of day reports date fields".into());
        }
        if t > 0 {
            let p = Time::try_from_usecs(t - 1).map_err(|e| format!("try_from_usecs({}) = Err({e:?})", t - 1))?;
            if !(p < a) || p == a || p.cmp(&a) != Ordering::Less {
                return Err("ordering of consecutive times is not chronological".into());
            }
        }
        Ok(())
    })
    .unwrap_or_else(|p| Err(p))
    .map_err(|m| format!("time {t}us: {m}"))
}

pub fn check_hms_grid(h: u32, mi: u32, s: u32, us: u32) -> Result<bool, String> {
    let (hb, mb, sb, ub) = (h >= 24, mi >= 60, s >= 60, us >= 1_000_000);
    let valid = !(hb || mb || sb || ub);
    let (r, v) = guarded(|| (Time::try_from_hms(h, mi, s, us), Time::is_valid(h, mi, s, us))).map_err(|p| format!("try_from_hms({h},{mi},{s},{us}): {p}"))?;
    if v != r.is_ok() {
        return Err(format!("is_valid({h},{mi},{s},{us}) = {v} but try_from_hms is_ok = {}", r.is_ok()));
    }
    // Date::and_hms must accept exactly the same tuples (and denote date + time)
    for n in [cal().first, -1, 0, cal().last] {
        let a = guarded(|| ad::date(n).and_hms(h, mi, s, us)).map_err(|p| format!("Date({n}).and_hms({h},{mi},{s},{us}): {p}"))?;
        match (&a, valid) {
            (Ok(x), true) if x.usecs() as i128 == n as i128 * US_PER_DAY + pools::hms(h as i128, mi as i128, s as i128, us as i128) => {}
            (Err(_), false) => {}
            _ => return Err(format!("Date({n}).and_hms({h},{mi},{s},{us}) = {:?}, but the tuple is {}", a.map(|x| x.usecs()), if valid { "valid" } else { "not a time of day: an error is required" })),
        }
    }
    match r {
        Ok(t) => {
            if !valid {
                return Err(format!("try_from_hms({h},{mi},{s},{us}) accepted an invalid tuple (usecs {})", t.usecs()));
            }
            let want = pools::hms(h as i128, mi as i128, s as i128, us as i128);
            if t.usecs() as i128 != want {
                return Err(format!("try_from_hms({h},{mi},{s},{us}).usecs() = {}, expected {want}", t.usecs()));
            }
            Ok(true)
        }
        Err(e) => {
            if valid {
                return Err(format!("try_from_hms({h},{mi},{s},{us}) = Err({e:?}) for a valid tuple"));
            }
            let ok = match e {
                Error::TimeOutOfRange => hb,
                Error::InvalidMinute => mb,
                Error::InvalidSecond => sb,
                Error::InvalidFraction => ub,
                // the statement fixes no error kinds: only a kind whose documented meaning names a
                // field that is fine is a contradiction; any other kind is "an error"
                _ => true,
            };
            if !ok {
                return Err(format!("try_from_hms({h},{mi},{s},{us}) = Err({e:?}) does not match a bad field"));
            }
            Ok(false)
        }
    }
}

pub fn check_time_oob(t: i64) -> Result<(), String> {
    match guarded(|| Time::try_from_usecs(t)) {
        Ok(Err(_)) => Ok(()),
        Ok(o) => Err(format!("Time::try_from_usecs({t}) = {:?}, expected an error (not a time of day)", o.map(|x| x.usecs()))),
        Err(p) => Err(p),
    }
}

pub fn check_ts_oob(t: i64) -> Result<(), String> {
    match guarded(|| Timestamp::try_from_usecs(t)) {
        Ok(Err(_)) => Ok(()),
        Ok(o) => Err(format!("Timestamp::try_from_usecs({t}) = {:?}, expected an error (outside the timestamp range)", o.map(|x| x.usecs()))),
        Err(p) => Err(p),
    }
}

/// chronological ordering / equality / hashing of two timestamps (raw counts a, b)
pub fn check_order(a: i64, b: i64) -> Result<(), String> {
    guarded(|| -> Result<(), String> {
        let (x, y) = (ad::ts(a), ad::ts(b));
        let want = a.cmp(&b);
        if x.cmp(&y) != want || x.partial_cmp(&y) != Some(want) || (x == y) != (a == b) || (x < y) != (a < b) || (x <= y) != (a <= b) || (x > y) != (a > b) || (x >= y) != (a >= b) {
            return Err(format!("timestamps {a} and {b}: comparison operators disagree with chronological order"));
        }
        if !ord_provided_ok(x, y, want) {
            return Err(format!("timestamps {a} and {b}: max / min / clamp / sort disagree with chronological order"));
        }
        if a == b && h64(&x) != h64(&y) {
            return Err("equal timestamps hash differently".into());
        }
        // the same through (date, time) pairs
        let (da, ta) = x.extract();
        let (db, tb) = y.extract();
        let pair = (da, ta).cmp(&(db, tb));
        if pair != want {
            return Err(format!("timestamps {a} and {b}: order of their (date, time) pairs is {pair:?}, of the instants {want:?}"));
        }
        if !ord_provided_ok(da, db, da.days().cmp(&db.days())) || !ord_provided_ok(ta, tb, ta.usecs().cmp(&tb.usecs())) {
            return Err(format!("timestamps {a} and {b}: max / min / clamp / sort of their dates or times of day disagree with the counts"));
        }
        if (da == db) != (da.days() == db.days()) || (ta == tb) != (ta.usecs() == tb.usecs()) {
            return Err("Date / Time equality disagrees with their counts".into());
        }
        if da == db && h64(&da) != h64(&db) || ta == tb && h64(&ta) != h64(&tb) {
            return Err("equal dates / times hash differently".into());
        }
        Ok(())
    })
    .unwrap_or_else(|p| Err(p))
}

/// chronological ordering across the two types: Date n (its midnight) vs Timestamp a, both
/// argument orders, every operator
pub fn check_mixed_order(n: i32, a: i64) -> Result<(), String> {
    fn agree<A: PartialOrd<B> + PartialEq<B>, B>(a: &A, b: &B, want: std::cmp::Ordering) -> bool {
        use std::cmp::Ordering::*;
        a.partial_cmp(b) == Some(want) && (a == b) == (want == Equal) && (a != b) == (want != Equal) && (a < b) == (want == Less) && (a <= b) == (want != Greater) && (a > b) == (want == Greater) && (a >= b) == (want != Less)
    }
    guarded(|| -> Result<(), String> {
        let (d, t) = (ad::date(n), ad::ts(a));
        let dm = n as i128 * US_PER_DAY;
        if !agree(&d, &t, dm.cmp(&(a as i128))) {
            return Err(format!("Date({n}) <op> Timestamp({a}): comparison operators disagree with chronological order ({:?})", dm.cmp(&(a as i128))));
        }
        if !agree(&t, &d, (a as i128).cmp(&dm)) {
            return Err(format!("Timestamp({a}) <op> Date({n}): comparison operators disagree with chronological order ({:?})", (a as i128).cmp(&dm)));
        }
        Ok(())
    })
    .unwrap_or_else(|p| Err(p))
}

pub fn eval(case: &Case) -> Verdict {
    let i = &case.i;
    let r = match case.kind.as_str() {
        "pair" => check_pair(i[0] as i32, i[1] as i64),
        "time" => check_time(i[0] as i64),
        "hms_grid" => check_hms_grid(i[0] as u32, i[1] as u32, i[2] as u32, i[3] as u32).map(|_| ()),
        "time_oob" => check_time_oob(i[0] as i64),
        "ts_oob" => check_ts_oob(i[0] as i64),
        "order" => check_order(i[0] as i64, i[1] as i64),
        "mixed_order" => check_mixed_order(i[0] as i32, i[1] as i64),
        "and_hms_invalid" => match guarded(|| ad::date(i[0] as i32).and_hms(i[1] as u32, i[2] as u32, i[3] as u32, i[4] as u32)) {
            Ok(Err(_)) => Ok(()),
            Ok(Ok(x)) => Err(format!("Date({}).and_hms({},{},{},{}) = Ok({}) for a tuple that is not a time of day", i[0], i[1], i[2], i[3], i[4], x.usecs())),
            Err(p) => Err(p),
        },
        k => Err(format!("unknown case kind {k}")),
    };
    match r {
        Ok(()) => Verdict::Pass,
        Err(m) => Verdict::Fail(m),
    }
}

pub fn run(ctx: &Ctx) -> (Stats, Report) {
    let c = cal();
    let mut st = Stats::new();
    let mut mark = (0, 0);
    run_replays(P, &mut st, &eval);
    st.section("replays", &mut mark);
    let seed = ctx.seed;

    // A: all dates x critical times
    let noon = pools::hms(12, 0, 0, 0) as i64;
    let fixed: Vec<i64> = vec![0, 1, noon - 1, noon, noon + 1, (US_PER_DAY - 1) as i64, pools::hms(11, 59, 0, 0) as i64, pools::hms(23, 59, 59, 0) as i64];
    let nrand = if ctx.thorough { 400 } else { 120 };
    let a = par_sweep(c.len() as u64, 1 << 13, |range, st| {
        for i in range {
            let r = &c.rows[i as usize];
            let mut sm = SplitMix(seed ^ mix64(i));
            for k in 0..fixed.len() + nrand {
                let t = if k < fixed.len() { fixed[k] } else { sm.below(US_PER_DAY as u64) as i64 };
                st.evaluations += 1;
                let nt = r.n < 0 || t == 0 || t as i128 == US_PER_DAY - 1;
                if nt {
                    st.nontrivial_enum += 1;
                }
                if r.n < 0 && t == 0 {
                    st.class("pre-1970-midnight");
                } else if r.n < 0 {
                    st.class("pre-1970");
                }
                if t as i128 == US_PER_DAY - 1 {
                    st.class("last-microsecond");
                }
                if let Err(m) = check_pair(r.n, t) {
                    st.fail(i, Case::new(P, "pair", vec![r.n as i128, t as i128], vec![]), m);
                    return;
                }
                // Date::and_hms with tuples just outside the clock range, on this date
                if k == 0 {
                    for (hh, mi2, ss2, us2) in [(23u32, 59u32, 60u32, 0u32), (24, 0, 0, 0), (23, 60, 0, 0), (23, 59, 59, 1_000_000), (23, 59, 60, 999_999)] {
                        st.evaluations += 1;
                        match guarded(|| ad::date(r.n).and_hms(hh, mi2, ss2, us2)) {
                            Ok(Err(_)) => {}
                            Ok(Ok(x)) => {
                                st.fail(i, Case::new(P, "and_hms_invalid", vec![r.n as i128, hh as i128, mi2 as i128, ss2 as i128, us2 as i128], vec![]), format!("Date({}).and_hms({hh},{mi2},{ss2},{us2}) = Ok({}) for a tuple that is not a time of day", r.n, x.usecs()));
                                return;
                            }
                            Err(p) => {
                                st.fail(i, Case::new(P, "and_hms_invalid", vec![r.n as i128, hh as i128, mi2 as i128, ss2 as i128, us2 as i128], vec![]), p);
                                return;
                            }
                        }
                    }
                }
                // the instant against the dates around it (previous day, same day, next day, a far one)
                let a = (r.n as i128 * US_PER_DAY + t as i128) as i64;
                for dn in [r.n - 1, r.n, r.n + 1, c.rows[(mix64(i ^ k as u64) % c.len() as u64) as usize].n] {
                    if dn >= c.first && dn <= c.last {
                        st.evaluations += 1;
                        if let Err(m) = check_mixed_order(dn, a) {
                            st.fail(i, Case::new(P, "mixed_order", vec![dn as i128, a as i128], vec![]), m);
                            return;
                        }
                    }
                }
                let key = mix64(seed ^ (i * 31 + k as u64));
                if nt && key < st.sample_threshold() {
                    st.sample(key, || json!({"kind": "pair", "date": format!("{:04}-{:02}-{:02}", r.y, r.m, r.d), "day": r.n, "time_us": t}));
                }
            }
        }
    });
    st.merge(a);
    st.exhaustive_sections.push(format!("all dates x {} critical times (+{} random times per date), each instant also compared with the dates of the previous / same / next day", fixed.len(), nrand));
    st.section("dates_x_times", &mut mark);

    // B: every second x boundary microseconds; all microseconds at three seconds
    let b = par_sweep(86_400, 512, |range, st| {
        for s in range {
            for us in [0i64, 1, 499_999, 500_000, 999_999] {
                let t = s as i64 * 1_000_000 + us;
                st.evaluations += 1;
                if us == 0 || us == 999_999 {
                    st.nontrivial_enum += 1;
                }
                st.class("second-of-day");
                if let Err(m) = check_time(t) {
                    st.fail(s, Case::new(P, "time", vec![t as i128], vec![]), m);
                    return;
                }
                // the same second inside pre-/post-epoch days
                for n in [c.first, -1, 0, c.last] {
                    st.evaluations += 1;
                    if let Err(m) = check_pair(n, t) {
                        st.fail(s, Case::new(P, "pair", vec![n as i128, t as i128], vec![]), m);
                        return;
                    }
                }
            }
        }
    });
    st.merge(b);
    st.exhaustive_sections.push("all 86,400 seconds x {0,1,499999,500000,999999} us".into());
    let b2 = par_sweep(3_000_000, 1 << 14, |range, st| {
        for k in range {
            let s = [0i64, 43_199, 86_399][(k / 1_000_000) as usize];
            let t = s * 1_000_000 + (k % 1_000_000) as i64;
            st.evaluations += 1;
            st.class("microsecond-sweep");
            if let Err(m) = check_time(t) {
                st.fail(k, Case::new(P, "time", vec![t as i128], vec![]), m);
                return;
            }
        }
    });
    st.merge(b2);
    st.exhaustive_sections.push("all 1,000,000 microseconds at seconds 0, 43199, 86399".into());
    st.section("times_of_day", &mut mark);

    // B3: instants at +-2^k in derived units, and every second of the days containing the
    // classic ones (i32 seconds, 2^53 us, ...)
    let inst = pools::binary_boundary_instants();
    for (k, &x) in inst.iter().enumerate() {
        let (n, t) = (x.div_euclid(US_PER_DAY) as i32, x.rem_euclid(US_PER_DAY) as i64);
        st.evaluations += 1;
        st.fps.push(hash_ints(0x7b, &[x]));
        st.class("binary-boundary-instant");
        if let Err(m) = check_pair(n, t) {
            st.fail(k as u64, Case::new(P, "pair", vec![n as i128, t as i128], vec![]), m);
            break;
        }
    }
    // boundary dates x times of day at 2^k us / ms / s and multiples of 2^32 us
    let btods = pools::binary_times_of_day();
    let bdates = pools::date_pool(seed, 60);
    for (k, &n) in bdates.iter().enumerate() {
        for &t in &btods {
            st.evaluations += 1;
            st.fps.push(hash_ints(0x7c, &[n, t]));
            st.class("binary-time-of-day");
            if let Err(m) = check_pair(n as i32, t as i64) {
                st.fail(k as u64, Case::new(P, "pair", vec![n, t], vec![]), m);
                break;
            }
        }
    }
    let bdays = pools::binary_boundary_days(ctx.thorough);
    let bref = &bdays;
    let s = par_sweep(bdays.len() as u64 * 86_400, 4096, |range, st| {
        for k in range {
            let n = bref[(k / 86_400) as usize];
            let sec = (k % 86_400) as i64;
            for us in [0i64, 1, 999_999] {
                st.evaluations += 1;
                st.nontrivial_enum += 1;
                if let Err(m) = check_pair(n, sec * 1_000_000 + us) {
                    st.fail(k, Case::new(P, "pair", vec![n as i128, (sec * 1_000_000 + us) as i128], vec![]), m);
                    return;
                }
            }
        }
    });
    st.merge(s);
    st.exhaustive_sections.push(format!("every second of {} binary-boundary days (counts in us/ms/s/min/day crossing +-2^k)", bdays.len()));
    st.section("binary_boundary_instants", &mut mark);

    // C: validity grid
    let hs = [0u32, 1, 11, 12, 23, 24, 25, 255, 256, u32::MAX];
    let ms = [0u32, 1, 59, 60, 61, 255, 256, u32::MAX];
    let uss = [0u32, 1, 999_999, 1_000_000, 1_000_001, u32::MAX];
    let mut k = 0u64;
    'grid: for &h in &hs {
        for &mi in &ms {
            for &s in &ms {
                for &us in &uss {
                    st.evaluations += 1;
                    k += 1;
                    match check_hms_grid(h, mi, s, us) {
                        Ok(true) => st.class("hms-accepted"),
                        Ok(false) => {
                            st.class("hms-rejected");
                            st.nontrivial_enum += 1;
                        }
                        Err(m) => {
                            st.fail(k, Case::new(P, "hms_grid", vec![h as i128, mi as i128, s as i128, us as i128], vec![]), m);
                            break 'grid;
                        }
                    }
                }
            }
        }
    }
    for t in [-1i64, -2, US_PER_DAY as i64, US_PER_DAY as i64 + 1, i64::MIN, i64::MIN + 1, i64::MAX, i64::MAX - 1, -(US_PER_DAY as i64), 2 * US_PER_DAY as i64] {
        st.evaluations += 1;
        st.nontrivial_enum += 1;
        st.class("time-out-of-range");
        if let Err(m) = check_time_oob(t) {
            st.fail(0, Case::new(P, "time_oob", vec![t as i128], vec![]), m);
        }
    }
    for d in [1i128, 2, 1000, US_PER_DAY] {
        for t in [ts_min() - d, ts_max() + d] {
            st.evaluations += 1;
            st.nontrivial_enum += 1;
            st.class("timestamp-out-of-range");
            if let Err(m) = check_ts_oob(t as i64) {
                st.fail(0, Case::new(P, "ts_oob", vec![t], vec![]), m);
            }
        }
    }
    for t in [i64::MIN, i64::MAX] {
        st.evaluations += 1;
        if let Err(m) = check_ts_oob(t) {
            st.fail(0, Case::new(P, "ts_oob", vec![t as i128], vec![]), m);
        }
    }
    st.section("validity_grid", &mut mark);

    // D: ordering over structured and random pairs
    let pool = pools::ts_pool(seed, if ctx.thorough { 20_000 } else { 6000 });
    let mut pairs: Vec<(i128, i128)> = vec![];
    for (k, &a) in pool.iter().enumerate() {
        for d in [0i128, 1, -1, US_PER_SEC, -US_PER_SEC, US_PER_DAY, -US_PER_DAY, US_PER_DAY - 1, 1 - US_PER_DAY] {
            if ts_in_range(a + d) {
                pairs.push((a, a + d));
            }
        }
        pairs.push((a, pool[(k * 7 + 3) % pool.len()]));
        pairs.push((a, pool[(k * 13 + 5) % pool.len()]));
        pairs.push((a, -a - 1)); // mirrored across 1970
    }
    let pairs: Vec<(i128, i128)> = pairs.into_iter().filter(|(a, b)| ts_in_range(*a) && ts_in_range(*b)).collect();
    let d = par_sweep(pairs.len() as u64, 4096, |range, st| {
        for k in range {
            let (a, b) = pairs[k as usize];
            st.evaluations += 1;
            if (a < 0) != (b < 0) {
                st.class("pair-across-1970");
            }
            if a == b {
                st.class("pair-equal");
            }
            st.fps.push(hash_ints(4, &[a, b]));
            if let Err(m) = check_order(a as i64, b as i64) {
                st.fail(k, Case::new(P, "order", vec![a, b], vec![]), m);
                return;
            }
        }
    });
    st.merge(d);
    st.section("ordering_pairs", &mut mark);

    let rep = Report {
        rule: "Exhaustive: every date x critical times of day (midnight, +1us, noon-1/noon/noon+1, last us, 11:59, 23:59:59) plus seeded random times, each instant also compared (==, !=, <, <=, >, >=, partial_cmp, both argument orders) with the Date of the previous, same and next day and a far day; Date::and_hms with five tuples just outside the clock range on every date; every second of the day x boundary microseconds (also inside the first/last supported day and the days around 1970); all 10^6 microseconds at three seconds; the (h,m,s,us) validity grid with u32 extremes; ordering/equality/hash over boundary-pool neighbour pairs and seeded pairs, including the provided Ord methods (max, min, clamp) and sorting for Timestamp, Date and Time. Oracle: i128 arithmetic n*86400e6+t and div/rem decomposition, walked calendar for y/m/d. Non-trivial = before 1970, exact midnight or last microsecond of a day, rejected tuple, out-of-range count; ordering pairs counted by distinct fingerprint.".into(),
        assumptions: vec![
            "second() is compared with the correctly rounded double of (microseconds within the minute)/10^6".into(),
            "hash consistency is checked with std's fixed-key DefaultHasher".into(),
        ],
        exhaustive: false,
        extra: Default::default(),
    };
    (st, rep)
}
