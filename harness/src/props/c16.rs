//! C16 – the Oracle-style date always holds whole seconds, flooring sub-second input.

use crate::adapter as ad;
use crate::engine::*;
use crate::model::cal::*;
use crate::model::dyadic::{day_offset, Offset};
use crate::model::text::{Kind, Val};
use crate::ops::*;
use crate::pools;
use crate::strat;
use proptest::prelude::*;
use serde_json::json;
use sqldatetime::{OracleDate, Timestamp};

const P: &str = "C16";

fn whole_in_range(x: i128) -> bool {
    ora_in_range(x)
}

/// From<Timestamp> and new(date, time): floor to the second.
pub fn check_convert(ts: i128) -> Result<(), String> {
    let want = ts.div_euclid(US_PER_SEC) * US_PER_SEC;
    let (a, b) = guarded(|| {
        let t = ad::ts(ts as i64);
        let (d, tm) = t.extract();
        (OracleDate::from(t).usecs() as i128, OracleDate::new(d, tm).usecs() as i128)
    })?;
    if a != want {
        return Err(format!("OracleDate::from(Timestamp {ts}) = {a}, expected the floor to the second {want}"));
    }
    if b != want {
        return Err(format!("OracleDate::new(date, time) of timestamp {ts} = {b}, expected the floor to the second {want}"));
    }
    if !whole_in_range(a) {
        return Err(format!("OracleDate::from(Timestamp {ts}) = {a} is not a whole second inside the range"));
    }
    // the raw constructor: a count that is not a whole second is refused or - should the library
    // ever accept it - floored like the timestamp conversion; a whole second is accepted as it is
    match guarded(|| OracleDate::try_from_usecs(ts as i64).map(|v| v.usecs() as i128))? {
        Ok(v) if v != want => {
            return Err(format!("OracleDate::try_from_usecs({ts}) = {v}, expected an error or the floor to the second {want}"));
        }
        Err(e) if ts == want => {
            return Err(format!("OracleDate::try_from_usecs({ts}) = Err({e:?}) for a whole second inside the range"));
        }
        _ => {}
    }
    // back to a timestamp: the same instant
    let back = guarded(|| Timestamp::from(ad::ora(a as i64)).usecs() as i128)?;
    if back != a {
        return Err(format!("Timestamp::from(OracleDate {a}) = {back}"));
    }
    Ok(())
}

/// Conversions that read the current local date: with the clock injected at the instant `ts`,
/// `OracleDate::now()` is that instant floored to the second and `OracleDate::try_from(time)` is
/// today + time floored to the second (also when today is before 1970).
pub fn check_clock_convert(ts: i128, tod2: i128) -> Result<(), String> {
    use std::convert::TryFrom;
    let day = ts.div_euclid(US_PER_DAY);
    let tod = ts.rem_euclid(US_PER_DAY);
    let r = *cal().row(day as i64).ok_or("clock date out of range")?;
    ad::clock_set(r.y, r.m as u32, r.d as u32, (tod / US_PER_HOUR) as u32, (tod % US_PER_HOUR / US_PER_MIN) as u32, (tod % US_PER_MIN / US_PER_SEC) as u32, (tod % US_PER_SEC) as u32);
    let out = guarded(|| -> Result<(), String> {
        let floor = |x: i128| x.div_euclid(US_PER_SEC) * US_PER_SEC;
        match OracleDate::now() {
            Ok(x) if x.usecs() as i128 == floor(ts) => {}
            other => return Err(format!("OracleDate::now() = {:?}, expected {} (the instant floored to the second)", other.map(|x| x.usecs()), floor(ts))),
        }
        for t in [tod, tod2] {
            let want = floor(day * US_PER_DAY + t);
            match OracleDate::try_from(ad::time(t as i64)) {
                Ok(x) if x.usecs() as i128 == want => {}
                other => return Err(format!("OracleDate::try_from(Time {t}) = {:?}, expected today + time floored to the second = {want}", other.map(|x| x.usecs()))),
            }
        }
        Ok(())
    })
    .unwrap_or_else(|p| Err(p));
    ad::clock_clear();
    out.map_err(|m| format!("with the current local instant {ts} us ({}): {m}", super::c05::show(Kind::Ts, ts)))
}

/// One year-month operation on the Oracle-style date at a whole-second instant against the same
/// operation on the timestamp of that instant: same value or both errors.
pub fn check_ym_vs_timestamp(x: i128, k: i32, sub: bool) -> Result<(), String> {
    guarded(|| -> Result<(), String> {
        let iv = ad::ym(k);
        let (a, b) = if sub {
            (ad::ts(x as i64).sub_interval_ym(iv).map(|v| v.usecs()), ad::ora(x as i64).sub_interval_ym(iv).map(|v| v.usecs()))
        } else {
            (ad::ts(x as i64).add_interval_ym(iv).map(|v| v.usecs()), ad::ora(x as i64).add_interval_ym(iv).map(|v| v.usecs()))
        };
        match (&a, &b) {
            (Ok(p), Ok(q)) if p == q => Ok(()),
            (Err(_), Err(_)) => Ok(()),
            _ => Err(format!("OracleDate({x}) {} {k} months = {b:?}, the timestamp result floored to the second is {a:?}", if sub { "-" } else { "+" })),
        }
    })
    .unwrap_or_else(|p| Err(p))
    .map_err(|m| format!("{m} ({})", super::c05::show(Kind::Ora, x)))
}

/// Any operation of the table that returns an Oracle-style date: whole second, in range.
pub fn check_op_invariant(op: &Op, args: &[Arg]) -> Result<(bool, &'static str), String> {
    let got = guarded(|| (op.call)(args)).map_err(|p| format!("{}({}): {p}", op.name, describe_args(args)))?;
    let check = |v: &Val| -> Result<(), String> {
        if v.kind == Kind::Ora && !whole_in_range(v.raw) {
            return Err(format!("{}({}) returned the Oracle-style date {} which is not a whole second inside 0001-01-01 00:00:00 ..= 9999-12-31 23:59:59", op.name, describe_args(args), v.raw));
        }
        Ok(())
    };
    match got {
        Ok(Out::Val(v)) => {
            check(&v)?;
            Ok((true, "ok-value"))
        }
        Ok(Out::Pair(a, b)) => {
            check(&a)?;
            check(&b)?;
            Ok((false, "ok-pair"))
        }
        Ok(_) => Ok((false, "ok-scalar")),
        Err(_) => Ok((true, "error")),
    }
}

/// add/sub_interval_dt = the timestamp result floored to the second.
pub fn check_add_dt(x: i128, i: i128, sub: bool) -> Result<(), String> {
    let exact = if sub { x - i } else { x + i };
    let want = if ts_in_range(exact) { Some(exact.div_euclid(US_PER_SEC) * US_PER_SEC) } else { None };
    let got = guarded(|| {
        let (a, b) = (ad::ora(x as i64), ad::dt(i as i64));
        (if sub { a.sub_interval_dt(b) } else { a.add_interval_dt(b) }).map(|r| r.usecs() as i128)
    })?;
    match (want, got) {
        (Some(w), Ok(g)) if w == g => Ok(()),
        (None, Err(_)) => Ok(()),
        (w, g) => Err(format!("OracleDate({x}).{}(IntervalDT({i})) = {g:?}, expected {w:?} (timestamp result floored to the second)", if sub { "sub_interval_dt" } else { "add_interval_dt" })),
    }
}

/// add_days family. which: 0 = OracleDate::add_days, 1 = OracleDate::sub_days,
/// 2 = Timestamp::oracle_add_days, 3 = Timestamp::oracle_sub_days (x is then any timestamp,
/// floored first).
pub fn check_add_days(which: u8, x: i128, days: f64) -> Result<(bool, &'static str), String> {
    let base = x.div_euclid(US_PER_SEC) * US_PER_SEC;
    let eff = if which % 2 == 1 { -days } else { days };
    let off = day_offset(eff, US_PER_DAY);
    let got = guarded(|| match which {
        0 => ad::ora(base as i64).add_days(days),
        1 => ad::ora(base as i64).sub_days(days),
        2 => ad::ts(x as i64).oracle_add_days(days),
        _ => ad::ts(x as i64).oracle_sub_days(days),
    }
    .map(|r| r.usecs() as i128))
    .map_err(|p| format!("add_days variant {which} on {x} with {days:e}: {p}"))?;
    let name = ["OracleDate.add_days", "OracleDate.sub_days", "Timestamp.oracle_add_days", "Timestamp.oracle_sub_days"][which as usize];
    let ctx = || format!("{name}({x}, {days:e} [bits {:#x}])", days.to_bits());
    match off {
        Offset::Nan | Offset::Infinite => match got {
            Err(_) => Ok((true, "non-finite-offset")),
            Ok(r) => Err(format!("{} = Ok({r}), expected an error", ctx())),
        },
        Offset::Finite { lo, hi, .. } => {
            // exact instants T = base + n for admissible n; the result must be a whole second
            // within half a second of one of them
            let (tlo, thi) = (base.saturating_add(lo), base.saturating_add(hi));
            let half = US_PER_SEC / 2;
            match got {
                Ok(r) => {
                    if !whole_in_range(r) {
                        return Err(format!("{} = Ok({r}), not a whole second inside the range", ctx()));
                    }
                    if r < tlo - half || r > thi + half {
                        return Err(format!("{} = {r}; the exact instant is {tlo}..={thi}, so the nearest second lies in {}..={}", ctx(), tlo - half, thi + half));
                    }
                    let frac = tlo.rem_euclid(US_PER_SEC);
                    Ok((frac != 0, if frac == half || (thi.rem_euclid(US_PER_SEC) == half) { "tie" } else if frac != 0 { "fractional-second" } else { "whole-second" }))
                }
                Err(e) => {
                    // legitimate only if some admissible instant is outside the timestamp
                    // range, or its nearest second is outside the Oracle-date range
                    let nearest_up = (thi + half).div_euclid(US_PER_SEC) * US_PER_SEC;
                    let ok = tlo < ts_min() || thi > ts_max() || nearest_up > ora_max();
                    if ok {
                        Ok((true, "error-out-of-range"))
                    } else {
                        Err(format!("{} = Err({e:?}) although the instant {tlo}..={thi} and its nearest second are inside the range", ctx()))
                    }
                }
            }
        }
    }
}

pub fn check_sub_date(a: i128, b: i128) -> Result<(), String> {
    let got = guarded(|| ad::ora(a as i64).sub_date(ad::ora(b as i64)))?;
    let secs = (a - b) / US_PER_SEC; // both whole seconds: exact
    let want = secs as f64 / 86_400.0; // |secs| < 2^53: one correctly rounded division
    if got.to_bits() != want.to_bits() && !(got == 0.0 && want == 0.0) {
        return Err(format!("OracleDate({a}).sub_date(OracleDate({b})) = {got:e}, expected {want:e} (= {secs} s / 86400, correctly rounded)"));
    }
    Ok(())
}

pub fn eval(case: &Case) -> Verdict {
    let i = &case.i;
    let r: Result<(), String> = match case.kind.as_str() {
        "convert" => check_convert(i[0]),
        "clock_convert" => check_clock_convert(i[0], i[1]),
        "ym_vs_ts" => check_ym_vs_timestamp(i[0], i[1] as i32, i[2] != 0),
        "add_dt" => check_add_dt(i[0], i[1], i[2] != 0),
        "add_days" => check_add_days(i[0] as u8, i[1], i2f(i[2])).map(|_| ()),
        "sub_date" => check_sub_date(i[0], i[1]),
        "op" => {
            let ops = all_ops();
            match ops.iter().find(|o| o.name == case.s[0]) {
                None => Err(format!("unknown op {}", case.s[0])),
                Some(op) => {
                    let args: Vec<Arg> = op.args.iter().zip(i.iter()).map(|(k, x)| arg_from_i128(*k, *x)).collect();
                    check_op_invariant(op, &args).map(|_| ())
                }
            }
        }
        k => Err(format!("unknown case kind {k}")),
    };
    match r {
        Ok(()) => Verdict::Pass,
        Err(m) => Verdict::Fail(m),
    }
}

/// Day offsets equal to k + 1/2 second +- a few microseconds (as doubles; inexact in general).
pub fn half_second_offsets() -> Vec<f64> {
    let mut v = vec![];
    for k in [0i64, 1, 2, 59, 60, 3599, 86_399, 86_400, 100_000, 31_536_000] {
        for d in [0i64, 1, -1, 10, -10, 100, -100, 499_999, -499_999] {
            let us = k * 1_000_000 + 500_000 + d;
            v.push(us as f64 / 86_400_000_000.0);
            v.push(-(us as f64) / 86_400_000_000.0);
        }
        // a fraction of a microsecond either side of the half-second mark: the rounding to
        // microseconds decides which second is nearest
        for f in [-0.9f64, -0.7, -0.5, -0.3, -0.1, 0.1, 0.3, 0.49, 0.5, 0.51, 0.7, 0.9, 1.3] {
            let us = (k * 1_000_000 + 500_000) as f64 + f;
            v.push(us / 86_400_000_000.0);
            v.push(-us / 86_400_000_000.0);
        }
    }
    v
}

pub fn run(ctx: &Ctx) -> (Stats, Report) {
    let c = cal();
    let mut st = Stats::new();
    let mut mark = (0, 0);
    run_replays(P, &mut st, &eval);
    st.section("replays", &mut mark);
    let seed = ctx.seed;

    // A: conversions, all dates x critical times x sub-second parts
    let secs = [0i128, 1, 43_200, 86_399];
    let subs = [0i128, 1, 499_999, 500_000, 999_999];
    let s = par_sweep(c.len() as u64, 1 << 13, |range, st| {
        for i in range {
            let n = c.rows[i as usize].n as i128;
            for s in secs {
                for u in subs {
                    let ts = n * US_PER_DAY + s * US_PER_SEC + u;
                    st.evaluations += 1;
                    if u != 0 {
                        st.nontrivial_enum += 1;
                        if n < 0 {
                            st.class("sub-second-before-1970");
                        }
                    }
                    if let Err(m) = check_convert(ts) {
                        st.fail(i, Case::new(P, "convert", vec![ts], vec![]), m);
                        return;
                    }
                    // the clock-reading conversions, with this instant as "now"
                    let tod2 = (mix64(i ^ (u as u64) << 20 ^ s as u64) % 86_400_000_000) as i128;
                    st.evaluations += 1;
                    st.nontrivial_enum += 1;
                    if let Err(m) = check_clock_convert(ts, tod2) {
                        st.fail(i, Case::new(P, "clock_convert", vec![ts, tod2], vec![]), m);
                        return;
                    }
                }
            }
        }
    });
    st.merge(s);
    st.exhaustive_sections.push("conversions: all dates x {00:00:00, 00:00:01, 12:00:00, 23:59:59} x sub-second {0,1,499999,500000,999999}, each also as the injected current instant for OracleDate::now() and OracleDate::try_from(Time)".into());
    st.sample(1, || json!({"kind": "convert", "timestamp_us": (-1i64).to_string(), "floored": (-1_000_000i64).to_string()}));
    // A2: every microsecond of a few seconds (early, just past 2^31 us into an hour, last second of
    // the day) on dates before 1970, at the epoch and far in the future
    {
        let secs2 = [0i128, 12 * 3600 + 35 * 60 + 48, 20 * 3600 + 56 * 60 + 15, 86_399];
        let days2 = [c.first as i128, -200, 0, c.last as i128];
        let s = par_sweep(1_000_000, 4096, |range, st| {
            for u in range {
                for (k, sec) in secs2.iter().enumerate() {
                    let ts = days2[(k + u as usize) % 4] * US_PER_DAY + sec * US_PER_SEC + u as i128;
                    st.evaluations += 1;
                    st.nontrivial_enum += 1;
                    if let Err(m) = check_convert(ts) {
                        st.fail(u, Case::new(P, "convert", vec![ts], vec![]), m);
                        return;
                    }
                }
            }
        });
        st.merge(s);
    }
    st.exhaustive_sections.push("conversions: all 10^6 microseconds of four seconds (00:00:00, 12:35:48, 20:56:15, 23:59:59) rotated over four dates".into());
    st.section("conversions", &mut mark);

    // B: every operation touching the type: whole-second invariant on pool cross products
    let ops: Vec<Op> = all_ops().into_iter().filter(|o| o.name.contains("OracleDate") || o.name.contains("oracle_")).collect();
    for (oi, op) in ops.iter().enumerate() {
        let pools_: Vec<Vec<Arg>> = op.args.iter().enumerate().map(|(k, ak)| arg_pool(*ak, seed, if k == 0 { PoolSize::Full } else { PoolSize::Small })).collect();
        let total: u64 = pools_.iter().map(|p| p.len() as u64).product();
        let s = par_sweep(total, 4096, |range, st| {
            for idx in range {
                let mut rem = idx;
                let mut args = Vec::with_capacity(pools_.len());
                for p in pools_.iter().rev() {
                    args.push(p[(rem % p.len() as u64) as usize]);
                    rem /= p.len() as u64;
                }
                args.reverse();
                st.evaluations += 1;
                match check_op_invariant(op, &args) {
                    Ok((nt, class)) => {
                        st.class(class);
                        if nt {
                            st.fps.push(hash_ints(oi as u64 + 1600, &args.iter().map(arg_to_i128).collect::<Vec<_>>()));
                        }
                    }
                    Err(m) => {
                        st.fail(idx, Case::new(P, "op", args.iter().map(arg_to_i128).collect(), vec![op.name.to_string()]), m);
                        return;
                    }
                }
            }
        });
        st.merge(s);
    }
    st.section("all_operations_whole_second_invariant", &mut mark);

    // C: interval arithmetic = floored timestamp result
    let op_ = pools::ora_pool(seed, 300);
    let dp = pools::dt_pool(seed, 300);
    let s = par_sweep((op_.len() * dp.len()) as u64, 8192, |range, st| {
        for k in range {
            let (x, i) = (op_[k as usize / dp.len()], dp[k as usize % dp.len()]);
            for sub in [false, true] {
                st.evaluations += 1;
                if i.rem_euclid(US_PER_SEC) != 0 {
                    st.fps.push(hash_ints(1650, &[x, i, sub as i128]));
                }
                if let Err(m) = check_add_dt(x, i, sub) {
                    st.fail(k, Case::new(P, "add_dt", vec![x, i, sub as i128], vec![]), m);
                    return;
                }
            }
        }
    });
    st.merge(s);
    // C1b: intervals built from the date's own time of day (the diagonal of the borrow / carry
    // logic): t, k days + t, one day - t, with and without a fraction, both operations
    {
        let dates = pools::date_pool(seed, if ctx.thorough { 4000 } else { 600 });
        let dref = &dates;
        let s = par_sweep(dates.len() as u64, 8, |range, st| {
            for k in range {
                let n = dref[k as usize];
                for sec in [1i128, 59, 3600, 26_621, 43_200, 67_209, 86_399] {
                    let x = n * US_PER_DAY + sec * US_PER_SEC;
                    let tt = sec * US_PER_SEC;
                    for iv in [tt, 3 * US_PER_DAY + tt, US_PER_DAY - tt, tt + 250_000, 5 * US_PER_DAY + (US_PER_DAY - tt) - 360_000, US_PER_DAY - US_PER_SEC + 640_000] {
                        for sub in [false, true] {
                            for sign in [1i128, -1] {
                                st.evaluations += 1;
                                st.nontrivial_enum += 1;
                                if let Err(m) = check_add_dt(x, sign * iv, sub) {
                                    st.fail(k, Case::new(P, "add_dt", vec![x, sign * iv, sub as i128], vec![]), m);
                                    return;
                                }
                            }
                        }
                    }
                }
            }
        });
        st.merge(s);
    }
    // C2: year-month arithmetic = the timestamp result, walking all dates with the operation and
    // the offset held fixed (ascending and descending), so that consecutive calls share a month
    {
        let s = par_sweep(c.len() as u64, 1 << 12, |range, st| {
            for pass in 0..2u64 {
                for (oi, k) in [1i32, 11, 12, 25, 1200, 4799].into_iter().enumerate() {
                    let sub = (oi as u64 + pass) % 2 == 1;
                    for j in 0..(range.end - range.start) {
                        let i = if pass == 0 { range.start + j } else { range.end - 1 - j };
                        let n = c.rows[i as usize].n as i128;
                        let x = n * US_PER_DAY + [0i128, 30_600, 43_200, 86_399][(i % 4) as usize] * US_PER_SEC;
                        st.evaluations += 1;
                        st.nontrivial_enum += 1;
                        if let Err(m) = check_ym_vs_timestamp(x, k, sub) {
                            st.fail(i, Case::new(P, "ym_vs_ts", vec![x, k as i128, sub as i128], vec![]), format!("{m} [in an {} walk with operation and offset held fixed: depends on earlier calls if the single call passes]", if pass == 0 { "ascending" } else { "descending" }));
                            return;
                        }
                    }
                }
            }
        });
        st.merge(s);
    }
    // C2b: offsets derived from the date itself: the exact month distance to the first and to the
    // last supported month (and one month short of / beyond it), added and - negated - subtracted
    {
        let s = par_sweep(c.len() as u64, 1 << 12, |range, st| {
            for i in range {
                let r = &c.rows[i as usize];
                let x = r.n as i128 * US_PER_DAY + [0i128, 30_600, 43_200, 86_399][(i % 4) as usize] * US_PER_SEC;
                let to_first = -(12 * (r.y as i64 - 1) + (r.m as i64 - 1));
                let to_last = 12 * (9999 - r.y as i64) + (12 - r.m as i64);
                for k in [to_first - 1, to_first, to_first + 1, to_last - 1, to_last, to_last + 1] {
                    for sub in [false, true] {
                        let kk = if sub { -k } else { k } as i32;
                        st.evaluations += 1;
                        st.nontrivial_enum += 1;
                        st.class("month-offset-reaching-the-first-or-last-supported-month");
                        if let Err(m) = check_ym_vs_timestamp(x, kk, sub) {
                            st.fail(i, Case::new(P, "ym_vs_ts", vec![x, kk as i128, sub as i128], vec![]), m);
                            return;
                        }
                    }
                }
            }
        });
        st.merge(s);
    }
    st.exhaustive_sections.push("year-month arithmetic vs timestamp: all dates x 6 offsets, ascending and descending walks with operation and offset held fixed; all dates x the month distances to the first / last supported month -1, 0, +1".into());
    st.section("interval_arithmetic_floored", &mut mark);

    // D: fractional days
    let xs = pools::ts_pool_small(seed, 60);
    let mut fs = pools::f64_scalars();
    fs.extend(half_second_offsets());
    fs.extend(super::c08::near_tie_days(seed, 200));
    let s = par_sweep((xs.len() * fs.len() * 4) as u64, 4096, |range, st| {
        for idx in range {
            let which = (idx % 4) as u8;
            let k = idx / 4;
            let x = xs[k as usize / fs.len()];
            let f = fs[k as usize % fs.len()];
            st.evaluations += 1;
            match check_add_days(which, x, f) {
                Ok((nt, class)) => {
                    st.class(class);
                    if nt {
                        st.fps.push(hash_ints(1660, &[which as i128, x, f2i(f)]));
                        let key = mix64(seed ^ mix64(idx));
                        if key < st.sample_threshold() {
                            st.sample(key, || json!({"kind": "add_days", "variant": which, "timestamp_us": x.to_string(), "days": f, "class": class}));
                        }
                    }
                }
                Err(m) => {
                    st.fail(idx, Case::new(P, "add_days", vec![which as i128, x, f2i(f)], vec![]), m);
                    return;
                }
            }
        }
    });
    st.merge(s);
    let s = pt_run(
        "C16/add_days",
        seed,
        (if ctx.thorough { 160_000_000 } else { 1_600_000 }) / THREADS as u32,
        THREADS,
        || {
            (
                0u8..4,
                strat::raw(Kind::Ts),
                prop_oneof![
                    3 => strat::any_f64(),
                    1 => (-400_000_000_000i64..=400_000_000_000, -3i64..=3).prop_map(|(k, d)| ((k * 1_000_000 + 500_000 + d) as f64) / 86_400_000_000.0),
                    // whole seconds + 1/2 second +- a fraction of a microsecond
                    2 => (-4_000_000i64..=4_000_000, -2000i32..=2000).prop_map(|(k, f)| ((k * 1_000_000 + 500_000) as f64 + f as f64 / 1000.0) / 86_400_000_000.0),
                ],
            )
        },
        |(which, x, f): &(u8, i128, f64), st: &mut Stats| {
            st.evaluations += 1;
            let (nt, class) = check_add_days(*which, *x, *f)?;
            st.class(class);
            if nt {
                st.fps.push(hash_ints(1661, &[*which as i128, *x, f2i(*f)]));
            }
            Ok(())
        },
        |(which, x, f): &(u8, i128, f64)| Case::new(P, "add_days", vec![*which as i128, *x, f2i(*f)], vec![]),
    );
    st.merge(s);
    st.section("fractional_days", &mut mark);

    // E: differences
    let s = par_sweep((op_.len() * op_.len()) as u64, 8192, |range, st| {
        for k in range {
            let (a, b) = (op_[k as usize / op_.len()], op_[k as usize % op_.len()]);
            st.evaluations += 1;
            if (a - b) % US_PER_DAY != 0 {
                st.fps.push(hash_ints(1670, &[a, b]));
            }
            if let Err(m) = check_sub_date(a, b) {
                st.fail(k, Case::new(P, "sub_date", vec![a, b], vec![]), m);
                return;
            }
        }
    });
    st.merge(s);
    st.section("differences", &mut mark);

    let rep = Report {
        rule: "Conversions: all dates x 4 seconds of the day x sub-second parts {0,1,499999,500000,999999} through From<Timestamp> and new (floor via i128 div_euclid, also before 1970); every such instant also injected as the current local instant (feature verif-hooks) for OracleDate::now() and OracleDate::try_from(Time) with that and a second, seeded sub-second time of day. Every operation of the operation table that takes or returns an Oracle-style date (constructors, conversions, interval / day arithmetic, last_day_of_month, 12 trunc + 12 round) on boundary+seeded pool cross products: each returned Oracle-style date must be a whole second inside 0001-01-01 00:00:00..9999-12-31 23:59:59. add/sub_interval_dt = the exact timestamp result floored to the second; add/sub_interval_ym = the timestamp result (value or error) on walks over all dates with operation and offset held fixed, and on all dates with the month distance to the first / last supported month -1, 0, +1. add_days/sub_days/oracle_add_days/oracle_sub_days with classed doubles, k+1/2 second +-{0,1,10,100} us offsets, exactly representable near-tie offsets and proptest-generated pairs: the result must be a whole second within half a second of an admissible exact instant (ties either way). sub_date on pool pairs = seconds/86400 correctly rounded. Non-trivial = sub-second input, fractional-second offset, non-whole-second interval, non-whole-day difference, error outcome.".into(),
        assumptions: vec![
            "add_days may fail when the exact (unrounded) instant lies outside the timestamp range even if its nearest second is the range minimum".into(),
            "month arithmetic of the Oracle-style date is decided in C09, truncation/rounding values in C10/C11/C17; here only the whole-second and range invariants of their results".into(),
        ],
        exhaustive: false,
        extra: Default::default(),
    };
    (st, rep)
}
