//! C09 – adding months keeps the day of month and the time, or fails; month ends are exact.

use crate::adapter as ad;
use crate::engine::*;
use crate::model::cal::*;
use crate::pools;
use serde_json::json;

const P: &str = "C09";

/// Model: the instant k months away from (day n, time t), or None when the target month has
/// no such day or the year leaves 1..=9999.
pub fn model_add_months(n: i32, t: i64, k: i64) -> Option<i128> {
    let c = cal();
    let r = c.row(n as i64)?;
    let total = 12 * r.y as i64 + (r.m as i64 - 1) + k;
    let y = total.div_euclid(12);
    let m = total.rem_euclid(12) + 1;
    let day = c.lookup(y, m, r.d as i64)?;
    Some(day as i128 * US_PER_DAY + t as i128)
}

/// which: 0 = Date, 1 = Timestamp, 2 = OracleDate
pub fn check_add_ym(which: u8, n: i32, t: i64, k: i32, sub: bool) -> Result<(), String> {
    let eff = if sub { -(k as i64) } else { k as i64 };
    let want = model_add_months(n, t, eff);
    let got: Result<Result<i128, sqldatetime::Error>, String> = guarded(|| {
        let iv = ad::ym(k);
        match which {
            0 => {
                let d = ad::date(n);
                (if sub { d.sub_interval_ym(iv) } else { d.add_interval_ym(iv) }).map(|x| x.usecs() as i128)
            }
            1 => {
                let x = ad::ts((n as i128 * US_PER_DAY + t as i128) as i64);
                (if sub { x.sub_interval_ym(iv) } else { x.add_interval_ym(iv) }).map(|x| x.usecs() as i128)
            }
            _ => {
                let x = ad::ora((n as i128 * US_PER_DAY + t as i128) as i64);
                (if sub { x.sub_interval_ym(iv) } else { x.add_interval_ym(iv) }).map(|x| x.usecs() as i128)
            }
        }
    });
    let name = ["Date", "Timestamp", "OracleDate"][which as usize];
    let op = if sub { "sub_interval_ym" } else { "add_interval_ym" };
    let r = cal().row(n as i64).unwrap();
    let ctx = || format!("{name}({:04}-{:02}-{:02} +{t}us).{op}({k} months)", r.y, r.m, r.d);
    match got {
        Err(p) => Err(format!("{}: {p}", ctx())),
        Ok(Ok(v)) => match want {
            Some(w) if w == v => Ok(()),
            Some(w) => Err(format!("{} = {v}, expected {w} (same day of month and time of day, {eff} months away)", ctx())),
            None => {
                let d = cal().row(v.div_euclid(US_PER_DAY) as i64).map(|x| format!("{:04}-{:02}-{:02}", x.y, x.m, x.d)).unwrap_or_else(|| "out of range".into());
                Err(format!("{} = Ok({v}) [{d}] but the target month has no such day or lies outside years 1..9999: an error is required (no clamping / spilling)", ctx()))
            }
        },
        Ok(Err(e)) => match want {
            None => Ok(()),
            Some(w) => Err(format!("{} = Err({e:?}), expected {w}", ctx())),
        },
    }
}

pub fn check_last_day(which: u8, n: i32, t: i64) -> Result<(), String> {
    let c = cal();
    let r = c.row(n as i64).ok_or("bad date")?;
    let len = month_len(r.y, r.m as u32);
    let want_day = c.lookup(r.y as i64, r.m as i64, len as i64).unwrap();
    let want = want_day as i128 * US_PER_DAY + t as i128;
    let got = guarded(|| match which {
        0 => ad::date(n).last_day_of_month().days() as i128 * US_PER_DAY,
        1 => ad::ts((n as i128 * US_PER_DAY + t as i128) as i64).last_day_of_month().usecs() as i128,
        _ => ad::ora((n as i128 * US_PER_DAY + t as i128) as i64).last_day_of_month().usecs() as i128,
    })?;
    let want = if which == 0 { want_day as i128 * US_PER_DAY } else { want };
    if got != want {
        return Err(format!(
            "{}({:04}-{:02}-{:02} +{t}us).last_day_of_month() = {got}, expected {want} (day {len} of the same month, time unchanged)",
            ["Date", "Timestamp", "OracleDate"][which as usize],
            r.y,
            r.m,
            r.d
        ));
    }
    Ok(())
}

pub fn eval(case: &Case) -> Verdict {
    let i = &case.i;
    let r = match case.kind.as_str() {
        "add_ym" => check_add_ym(i[0] as u8, i[1] as i32, i[2] as i64, i[3] as i32, i[4] != 0),
        "last_day" => check_last_day(i[0] as u8, i[1] as i32, i[2] as i64),
        k => Err(format!("unknown case kind {k}")),
    };
    match r {
        Ok(()) => Verdict::Pass,
        Err(m) => Verdict::Fail(m),
    }
}

pub fn offsets_for(r: &Row, seed: u64, idx: u64, small: bool) -> Vec<i32> {
    let mut v: Vec<i32> = if small { (-13..=13).collect() } else { (-40..=40).collect() };
    if small && r.d >= 29 {
        // the Timestamp / OracleDate copies: every whole-year offset within +-110 years
        for j in 2..=110i32 {
            v.push(12 * j);
            v.push(-12 * j);
        }
    }
    if !small && r.d >= 29 {
        // month ends: every offset within +-100 years (whole 4-year / 100-year cycles included)
        v.extend(41..=1212);
        v.extend(-1212..=-41);
    }
    if r.d >= 29 {
        // whole 400-year cycles plus / minus up to 13 months: the calendar repeats, the month carry
        // moves the target into a neighbouring year
        for n in [-2i32, -1, 1, 2] {
            for rr in -13..=13i32 {
                v.push(4800 * n + rr);
            }
        }
    }
    let to_first = -(12 * (r.y as i64 - 1) + (r.m as i64 - 1));
    let to_last = 12 * (9999 - r.y as i64) + (12 - r.m as i64);
    for k in [to_first, to_first - 1, to_first + 1, to_last, to_last + 1, to_last - 1, to_first - 12, to_last + 12] {
        v.push(k as i32);
    }
    v.push(YM_MAX as i32);
    v.push(-(YM_MAX as i32));
    v.push(YM_MAX as i32 - 1);
    v.push(1 - YM_MAX as i32);
    let mut sm = SplitMix(seed ^ mix64(idx.wrapping_add(0x9)));
    let nr = if small { 2 } else { 8 };
    for j in 0..nr {
        let scale = [200i64, 12 * 9999, 12 * 9999, YM_MAX as i64][j % 4];
        v.push((sm.below(2 * scale as u64 + 1) as i64 - scale) as i32);
    }
    v
}

pub fn run(ctx: &Ctx) -> (Stats, Report) {
    let c = cal();
    let mut st = Stats::new();
    let mut mark = (0, 0);
    run_replays(P, &mut st, &eval);
    st.section("replays", &mut mark);
    let seed = ctx.seed;

    // A: all dates x offsets through Date
    let a = par_sweep(c.len() as u64, 1 << 12, |range, st| {
        for i in range {
            let r = &c.rows[i as usize];
            for k in offsets_for(r, seed, i, false) {
                st.evaluations += 1;
                let cross_neg = k < 0 && (r.m as i32 - 1 + k) < 0;
                let nt = r.d >= 29 || cross_neg || (k as i64).abs() >= 12 * 9998;
                if nt {
                    st.nontrivial_enum += 1;
                    if r.d >= 29 {
                        st.class("day-29-to-31");
                    }
                    if cross_neg {
                        st.class("negative-carry-across-year");
                    }
                    if (k as i64).abs() >= 12 * 9998 {
                        st.class("offset-spans-whole-range");
                    }
                }
                if let Err(m) = check_add_ym(0, r.n, 0, k, false) {
                    st.fail(i, Case::new(P, "add_ym", vec![0, r.n as i128, 0, k as i128, 0], vec![]), m);
                    return;
                }
                // subtraction: all small and extreme offsets; on days 29..31 also every third of the
                // other offsets and every cycle offset
                if k.abs() <= 40 || k.abs() as i128 >= YM_MAX - 1 || (r.d >= 29 && (k.abs() > 1212 || (k as i64 + i as i64) % 3 == 0)) {
                    st.evaluations += 1;
                    if let Err(m) = check_add_ym(0, r.n, 0, k, true) {
                        st.fail(i, Case::new(P, "add_ym", vec![0, r.n as i128, 0, k as i128, 1], vec![]), m);
                        return;
                    }
                }
                if nt {
                    let key = mix64(seed ^ mix64((i * 131).wrapping_add(k as i64 as u64)));
                    if key < st.sample_threshold() {
                        st.sample(key, || json!({"type": "Date", "date": format!("{:04}-{:02}-{:02}", r.y, r.m, r.d), "months": k, "model": model_add_months(r.n, 0, k as i64).map(|x| x.to_string())}));
                    }
                }
            }
        }
    });
    st.merge(a);
    st.exhaustive_sections.push("Date: all dates x offsets -40..=40, offsets reaching the first/last supported month (+-1, +-12), interval limits, 8 seeded; days 29..31 also +-1212 months and +-1 / +-2 cycles of 400 years +-13 months, added and subtracted".into());
    st.section("date_all_dates_x_offsets", &mut mark);

    // B: Timestamp and OracleDate: all dates x critical times x a smaller offset set
    let times: Vec<i64> = if ctx.thorough {
        vec![0, 1, pools::hms(12, 0, 0, 0) as i64, pools::hms(23, 59, 59, 999_999) as i64, pools::hms(9, 8, 7, 654_321) as i64]
    } else {
        vec![1, pools::hms(23, 59, 59, 999_999) as i64]
    };
    let stride = if ctx.thorough { 1 } else { 3 };
    let b = par_sweep(c.len() as u64, 1 << 12, |range, st| {
        for i in range {
            // month ends and days >= 28 are always included; other days by stride
            let r = &c.rows[i as usize];
            if r.d < 28 && (i + seed) % stride != 0 {
                continue;
            }
            for &t in &times {
                for k in offsets_for(r, seed, i, true) {
                    for which in [1u8, 2] {
                        let tt = if which == 2 { t / 1_000_000 * 1_000_000 } else { t };
                        st.evaluations += 1;
                        if r.d >= 29 || (k as i64).abs() >= 12 * 9998 {
                            st.nontrivial_enum += 1;
                        }
                        st.class(if which == 1 { "timestamp" } else { "oracle-date" });
                        if let Err(m) = check_add_ym(which, r.n, tt, k, false) {
                            st.fail(i, Case::new(P, "add_ym", vec![which as i128, r.n as i128, tt as i128, k as i128, 0], vec![]), m);
                            return;
                        }
                        if k.abs() <= 2 || (r.d >= 29 && (k.abs() > 1320 || (k as i64 + i as i64) % 3 == 0)) {
                            st.evaluations += 1;
                            if let Err(m) = check_add_ym(which, r.n, tt, k, true) {
                                st.fail(i, Case::new(P, "add_ym", vec![which as i128, r.n as i128, tt as i128, k as i128, 1], vec![]), m);
                                return;
                            }
                        }
                    }
                }
            }
        }
    });
    st.merge(b);
    st.section("timestamp_oracle_dates_x_times_x_offsets", &mut mark);

    // B2: whole calendar cycles at every magnitude: every multiple of 4800 months (400 years)
    // inside the interval range, and every 7th multiple of 1200 months, from boundary dates,
    // through Date and Timestamp (almost all must fail; a wrapped or clamped Ok is the target)
    let cyc_dates = pools::date_pool(seed, if ctx.thorough { 400 } else { 24 });
    let max_cycles = (YM_MAX / 4800) as i64;
    let cd = &cyc_dates;
    let s = par_sweep((2 * max_cycles + 1) as u64, 1 << 12, |range, st| {
        for j in range {
            let k = ((j as i64 - max_cycles) * 4800) as i32;
            for (di, &n) in cd.iter().enumerate() {
                let which = (di % 2) as u8;
                st.evaluations += 1;
                st.nontrivial_enum += 1;
                if let Err(m) = check_add_ym(which, n as i32, 0, k, j % 2 == 1) {
                    st.fail(j, Case::new(P, "add_ym", vec![which as i128, n, 0, k as i128, (j % 2) as i128], vec![]), m);
                    return;
                }
            }
            if j % 7 == 0 {
                for mult in [1200i64, 12, 48] {
                    let kk = (j as i64 - max_cycles) * mult * 4 + mult;
                    if kk.abs() as i128 <= YM_MAX {
                        let n = cd[(j as usize / 7) % cd.len()];
                        st.evaluations += 1;
                        if let Err(m) = check_add_ym(1, n as i32, 1, kk as i32, false) {
                            st.fail(j, Case::new(P, "add_ym", vec![1, n, 1, kk as i128, 0], vec![]), m);
                            return;
                        }
                    }
                }
            }
        }
    });
    st.merge(s);
    st.exhaustive_sections.push(format!("every multiple of 4800 months within the interval range x {} boundary dates", cyc_dates.len()));
    st.section("whole_cycle_offsets", &mut mark);

    // call-order histories: with the operation, the type and the offset held fixed, all dates
    // in ascending, descending and scrambled order (anything a call leaves behind - a memo keyed
    // on the month or the interval - meets the next date of the same month / an earlier one)
    let g = par_sweep(c.len() as u64, 1 << 12, |range, st| {
        let (lo, len) = (range.start, range.end - range.start);
        for pass in 0..3u64 {
            for (oi, off) in [1i32, 12, 13, 48, 1200].into_iter().enumerate() {
                let which = ((pass as usize + oi + (lo >> 12) as usize) % 3) as u8;
                let sub = (oi + pass as usize) % 2 == 1;
                for k in 0..len {
                    let i = match pass {
                        0 => lo + k,
                        1 => range.end - 1 - k,
                        _ => lo + (k * 2731 + 17) % len,
                    };
                    let r = &c.rows[i as usize];
                    let t = if which == 0 { 0 } else { [0i64, 43_200_000_000, 86_399_000_000][(i % 3) as usize] };
                    st.evaluations += 1;
                    st.nontrivial_enum += 1;
                    if let Err(m) = check_add_ym(which, r.n, t, off, sub) {
                        st.fail(i, Case::new(P, "add_ym", vec![which as i128, r.n as i128, t as i128, off as i128, sub as i128], vec![]), format!("{m} [in a {} sweep with type, operation and offset held fixed: depends on earlier calls if the single call passes]", ["ascending", "descending", "scrambled"][pass as usize]));
                        return;
                    }
                }
            }
        }
    });
    st.merge(g);
    st.exhaustive_sections.push("all dates in ascending, descending and scrambled order x 5 offsets with type / operation / offset held fixed along the walk".into());
    st.section("call_order_histories", &mut mark);

    // C: last_day_of_month, all dates (x times for timestamps)
    let lt: Vec<i64> = vec![0, 1, pools::hms(12, 0, 0, 0) as i64, pools::hms(23, 59, 59, 0) as i64, pools::hms(23, 59, 59, 999_999) as i64];
    let l = par_sweep(c.len() as u64, 1 << 13, |range, st| {
        for i in range {
            let r = &c.rows[i as usize];
            st.evaluations += 1;
            let nt = r.m == 2 || r.d as u32 == month_len(r.y, r.m as u32) || r.d == 1;
            if nt {
                st.nontrivial_enum += 1;
            }
            if let Err(m) = check_last_day(0, r.n, 0) {
                st.fail(i, Case::new(P, "last_day", vec![0, r.n as i128, 0], vec![]), m);
                return;
            }
            for &t in &lt {
                for which in [1u8, 2] {
                    let tt = if which == 2 { t / 1_000_000 * 1_000_000 } else { t };
                    st.evaluations += 1;
                    if nt {
                        st.nontrivial_enum += 1;
                    }
                    if let Err(m) = check_last_day(which, r.n, tt) {
                        st.fail(i, Case::new(P, "last_day", vec![which as i128, r.n as i128, tt as i128], vec![]), m);
                        return;
                    }
                }
            }
        }
    });
    st.merge(l);
    st.exhaustive_sections.push("last_day_of_month: all dates (Date) and all dates x 5 times (Timestamp, OracleDate)".into());
    st.section("last_day_of_month", &mut mark);

    let rep = Report {
        rule: "Exhaustive over all 3,652,059 dates x month offsets {-40..=40, offsets that reach the first and the last supported month (and one month / one year beyond), +-interval limit, seeded random; on days 29..31 also every offset within +-1212 months and +-1 / +-2 cycles of 400 years +-13 months, added and subtracted} through Date::add/sub_interval_ym; the same through Timestamp and OracleDate at critical times of day (all dates in thorough; every 3rd date plus all days >= 28 in quick); last_day_of_month on all dates x times. Oracle: floor-division month carry + walked calendar lookup of (y', m', d): Ok(same day, same time) iff that day exists and 1 <= y' <= 9999. Non-trivial = day of month >= 29, negative carry across a year boundary, |offset| >= 12*9998 months (add); February, first or last day of a month (last_day). Distinct by enumeration.".into(),
        assumptions: vec!["the error kind of a failing month addition is not constrained by the statement".into()],
        exhaustive: ctx.thorough,
        extra: Default::default(),
    };
    (st, rep)
}
