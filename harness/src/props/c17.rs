//! C17 – Date, Timestamp and Oracle-style date agree on the same instant.

use super::c10::{call_unit, critical_times, show};
use crate::adapter as ad;
use crate::engine::*;
use crate::model::cal::*;
use crate::pools;
use serde_json::json;
use sqldatetime::Error;
use std::cmp::Ordering;

const P: &str = "C17";

fn same(a: &Result<i128, Error>, b: &Result<i128, Error>) -> bool {
    match (a, b) {
        (Ok(x), Ok(y)) => x == y,
        (Err(_), Err(_)) => true,
        _ => false,
    }
}

fn fmt(r: &Result<i128, Error>) -> String {
    match r {
        Ok(v) => show(*v),
        Err(e) => format!("Err({e:?})"),
    }
}

/// trunc / round of the instant (day n, whole-second time t) through every applicable type.
pub fn check_unit(round: bool, u: Unit, n: i32, t: i64) -> Result<(), String> {
    let r1 = call_unit(1, round, u, n, t)?;
    let r2 = call_unit(2, round, u, n, t)?;
    let name = format!("{}_{}", if round { "round" } else { "trunc" }, u.name());
    let input = show(n as i128 * US_PER_DAY + t as i128);
    if !same(&r1, &r2) {
        return Err(format!("{name} of {input}: Timestamp gives {}, OracleDate gives {}", fmt(&r1), fmt(&r2)));
    }
    if t == 0 {
        let r0 = call_unit(0, round, u, n, 0)?;
        if !same(&r0, &r1) {
            return Err(format!("{name} of {input}: Date gives {}, Timestamp at its midnight gives {}", fmt(&r0), fmt(&r1)));
        }
    }
    Ok(())
}

pub fn check_last_day(n: i32, t: i64) -> Result<(), String> {
    let ts = n as i128 * US_PER_DAY + t as i128;
    let (a, b, d) = guarded(|| {
        (
            ad::ts(ts as i64).last_day_of_month().usecs() as i128,
            ad::ora(ts as i64).last_day_of_month().usecs() as i128,
            ad::date(n).last_day_of_month().days() as i128 * US_PER_DAY + t as i128,
        )
    })?;
    if a != b || a != d {
        return Err(format!("last_day_of_month of {}: Timestamp {}, OracleDate {}, Date (+ time) {}", show(ts), show(a), show(b), show(d)));
    }
    Ok(())
}

pub fn check_add_ym(n: i32, t: i64, k: i32) -> Result<(), String> {
    let ts = n as i128 * US_PER_DAY + t as i128;
    guarded(|| -> Result<(), String> {
        let iv = ad::ym(k);
        let a = ad::ts(ts as i64).add_interval_ym(iv).map(|x| x.usecs() as i128);
        let b = ad::ora(ts as i64).add_interval_ym(iv).map(|x| x.usecs() as i128);
        let sa = ad::ts(ts as i64).sub_interval_ym(iv).map(|x| x.usecs() as i128);
        let sb = ad::ora(ts as i64).sub_interval_ym(iv).map(|x| x.usecs() as i128);
        if !same(&a, &b) || !same(&sa, &sb) {
            return Err(format!("+-{k} months on {}: Timestamp {}/{}, OracleDate {}/{}", show(ts), fmt(&a), fmt(&sa), fmt(&b), fmt(&sb)));
        }
        if t == 0 {
            let d = ad::date(n).add_interval_ym(iv).map(|x| x.usecs() as i128);
            let sd = ad::date(n).sub_interval_ym(iv).map(|x| x.usecs() as i128);
            if !same(&d, &a) || !same(&sd, &sa) {
                return Err(format!("+-{k} months on {}: Date {}/{}, Timestamp {}/{}", show(ts), fmt(&d), fmt(&sd), fmt(&a), fmt(&sa)));
            }
        }
        Ok(())
    })
    .unwrap_or_else(|p| Err(p))
}

pub fn check_add_dt(n: i32, t: i64, i: i128) -> Result<(), String> {
    let ts = n as i128 * US_PER_DAY + t as i128;
    guarded(|| -> Result<(), String> {
        let iv = ad::dt(i as i64);
        let fl = |r: Result<i128, Error>| r.map(|x| x.div_euclid(US_PER_SEC) * US_PER_SEC);
        let a = ad::ts(ts as i64).add_interval_dt(iv).map(|x| x.usecs() as i128);
        let b = ad::ora(ts as i64).add_interval_dt(iv).map(|x| x.usecs() as i128);
        let sa = ad::ts(ts as i64).sub_interval_dt(iv).map(|x| x.usecs() as i128);
        let sb = ad::ora(ts as i64).sub_interval_dt(iv).map(|x| x.usecs() as i128);
        if !same(&fl(a.clone()), &b) || !same(&fl(sa.clone()), &sb) {
            return Err(format!("+-IntervalDT({i}) on {}: Timestamp {}/{}, OracleDate {}/{} (expected the timestamp result floored to the second)", show(ts), fmt(&a), fmt(&sa), fmt(&b), fmt(&sb)));
        }
        if t == 0 {
            let d = ad::date(n).add_interval_dt(iv).map(|x| x.usecs() as i128);
            let sd = ad::date(n).sub_interval_dt(iv).map(|x| x.usecs() as i128);
            if !same(&d, &a) || !same(&sd, &sa) {
                return Err(format!("+-IntervalDT({i}) on {}: Date {}/{}, Timestamp {}/{}", show(ts), fmt(&d), fmt(&sd), fmt(&a), fmt(&sa)));
            }
        }
        Ok(())
    })
    .unwrap_or_else(|p| Err(p))
}

/// differences between two dates (days n1, n2) through the three types
pub fn check_diff(n1: i32, n2: i32, t2: i64) -> Result<(), String> {
    guarded(|| -> Result<(), String> {
        let (d1, d2) = (ad::date(n1), ad::date(n2));
        let (m1, m2) = (n1 as i128 * US_PER_DAY, n2 as i128 * US_PER_DAY);
        let (x1, x2) = (ad::ts(m1 as i64), ad::ts(m2 as i64));
        let (o1, o2) = (ad::ora(m1 as i64), ad::ora(m2 as i64));
        let days = d1.sub_date(d2) as i128;
        let us = x1.sub_timestamp(x2).usecs() as i128;
        if us != days * US_PER_DAY {
            return Err(format!("Date.sub_date = {days} days but Timestamp.sub_timestamp of the midnights = {us} us"));
        }
        let f = o1.sub_date(o2);
        if f != days as f64 {
            return Err(format!("Date.sub_date = {days} days but OracleDate.sub_date = {f}"));
        }
        // the same two days at the same whole-second time of day, and at two different ones:
        // OracleDate.sub_date (days as a double) = Timestamp.sub_timestamp (exact us) / one day
        let ts2 = t2 as i128 / US_PER_SEC * US_PER_SEC;
        for (ta, tb) in [(ts2, ts2), (ts2, 0), (0, ts2), (ts2, US_PER_DAY - US_PER_SEC - ts2)] {
            let (xa, xb) = (ad::ts((m1 + ta) as i64), ad::ts((m2 + tb) as i64));
            let (oa, ob) = (ad::ora((m1 + ta) as i64), ad::ora((m2 + tb) as i64));
            let us = xa.sub_timestamp(xb).usecs();
            let want = us as f64 / US_PER_DAY as f64; // us is a multiple of 2^6 below 2^59: exact, one rounding
            let f = oa.sub_date(ob);
            if f != want {
                return Err(format!("at times of day {ta} / {tb} us: OracleDate.sub_date = {f:e} days but Timestamp.sub_timestamp = {us} us = {want:e} days"));
            }
            let g = xa.oracle_sub_date(ob).usecs();
            if g != us {
                return Err(format!("at times of day {ta} / {tb} us: Timestamp.oracle_sub_date = {g} us but Timestamp.sub_timestamp = {us} us"));
            }
        }
        // against an arbitrary timestamp y = (n2, t2)
        let y = ad::ts((m2 + t2 as i128) as i64);
        let a = d1.sub_timestamp(y).usecs();
        let b = x1.sub_timestamp(y).usecs();
        let c = o1.sub_timestamp(y).usecs();
        if a != b || b != c {
            return Err(format!("x - timestamp: Date {a}, Timestamp {b}, OracleDate {c}"));
        }
        let r1 = y.sub_date(d1).usecs();
        let r2 = y.sub_timestamp(x1).usecs();
        let r3 = y.oracle_sub_date(o1).usecs();
        if r1 != r2 || r2 != r3 || r1 != -a {
            return Err(format!("timestamp - x: sub_date {r1}, sub_timestamp {r2}, oracle_sub_date {r3}, -(x - timestamp) {}", -a));
        }
        Ok(())
    })
    .unwrap_or_else(|p| Err(p))
    .map_err(|m| format!("dates {n1}, {n2} (+{t2}us): {m}"))
}

fn ops_agree<A: PartialOrd<B> + PartialEq<B>, B>(a: &A, b: &B, want: Ordering) -> bool {
    a.partial_cmp(b) == Some(want)
        && (a == b) == (want == Ordering::Equal)
        && (a != b) == (want != Ordering::Equal)
        && (a < b) == (want == Ordering::Less)
        && (a <= b) == (want != Ordering::Greater)
        && (a > b) == (want == Ordering::Greater)
        && (a >= b) == (want != Ordering::Less)
}

/// mixed comparisons: date n vs timestamp x; oracle o vs timestamp x; oracle o vs date n
pub fn check_cmp(n: i32, x: i128, o: i128) -> Result<(), String> {
    guarded(|| -> Result<(), String> {
        let d = ad::date(n);
        let t = ad::ts(x as i64);
        let od = ad::ora(o as i64);
        let dm = n as i128 * US_PER_DAY;
        if !ops_agree(&d, &t, dm.cmp(&x)) || !ops_agree(&t, &d, x.cmp(&dm)) {
            return Err(format!("Date({n}) vs Timestamp({x}): mixed comparison disagrees with comparing the date's midnight"));
        }
        if !ops_agree(&od, &t, o.cmp(&x)) || !ops_agree(&t, &od, x.cmp(&o)) {
            return Err(format!("OracleDate({o}) vs Timestamp({x}): mixed comparison disagrees with the instants"));
        }
        if !ops_agree(&od, &d, o.cmp(&dm)) || !ops_agree(&d, &od, dm.cmp(&o)) {
            return Err(format!("OracleDate({o}) vs Date({n}): mixed comparison disagrees with the instants"));
        }
        // two Oracle-style dates order as the timestamps of their whole seconds (every operator, cmp,
        // and the provided max / min / clamp / sort)
        let o2 = x.div_euclid(US_PER_SEC) * US_PER_SEC;
        let (od2, want) = (ad::ora(o2 as i64), o.cmp(&o2));
        if !ops_agree(&od, &od2, want) || !ops_agree(&od2, &od, want.reverse()) || od.cmp(&od2) != want || !ord_provided_ok(od, od2, want) || ad::ts(o as i64).cmp(&ad::ts(o2 as i64)) != want {
            return Err(format!("OracleDate({o}) vs OracleDate({o2}): ordering disagrees with the timestamps of their whole seconds"));
        }
        Ok(())
    })
    .unwrap_or_else(|p| Err(p))
}

pub fn eval(case: &Case) -> Verdict {
    let i = &case.i;
    let r = match case.kind.as_str() {
        "unit" => check_unit(i[0] != 0, Unit::from_index(i[1] as usize), i[2] as i32, i[3] as i64),
        "last_day" => check_last_day(i[0] as i32, i[1] as i64),
        "add_ym" => check_add_ym(i[0] as i32, i[1] as i64, i[2] as i32),
        "add_dt" => check_add_dt(i[0] as i32, i[1] as i64, i[2]),
        "diff" => check_diff(i[0] as i32, i[1] as i32, i[2] as i64),
        "cmp" => check_cmp(i[0] as i32, i[1], i[2]),
        k => Err(format!("unknown case kind {k}")),
    };
    match r {
        Ok(()) => Verdict::Pass,
        Err(m) => Verdict::Fail(m),
    }
}

pub fn run(ctx: &Ctx) -> (Stats, Report) {
    let c = cal();
    let mut st = Stats::new();
    let mut mark = (0, 0);
    run_replays(P, &mut st, &eval);
    st.section("replays", &mut mark);
    let seed = ctx.seed;
    let times: Vec<i64> = if ctx.thorough {
        critical_times().into_iter().map(|t| t / 1_000_000 * 1_000_000).collect::<std::collections::BTreeSet<_>>().into_iter().collect()
    } else {
        vec![0, pools::hms(11, 59, 59, 0) as i64, pools::hms(12, 0, 0, 0) as i64, pools::hms(23, 59, 30, 0) as i64]
    };
    let yms: Vec<i32> = vec![0, 1, -1, 11, -11, 12, -12, 13, 25, -25, 1200, -1200, 12 * 9998, -12 * 9998, YM_MAX as i32, -(YM_MAX as i32)];
    let dts = pools::dt_pool_small(seed, 6);

    let s = par_sweep(c.len() as u64, 1 << 11, |range, st| {
        for i in range {
            let r = &c.rows[i as usize];
            let mut sm = SplitMix(seed ^ mix64(i ^ 0x17));
            for (k, &t) in times.iter().enumerate() {
                for u in UNITS {
                    for round in [false, true] {
                        st.evaluations += 1;
                        st.nontrivial_enum += 1;
                        if let Err(m) = check_unit(round, u, r.n, t) {
                            st.fail(i, Case::new(P, "unit", vec![round as i128, u.index() as i128, r.n as i128, t as i128], vec![]), m);
                            return;
                        }
                    }
                }
                if k % 4 == 0 {
                    st.evaluations += 1;
                    st.nontrivial_enum += 1;
                    if let Err(m) = check_last_day(r.n, t) {
                        st.fail(i, Case::new(P, "last_day", vec![r.n as i128, t as i128], vec![]), m);
                        return;
                    }
                    // the fixed offsets, plus the offsets that reach the first / last supported
                    // month from this date (and one month / one year beyond)
                    let mut offs = yms.clone();
                    if k == 0 {
                        offs.extend(super::c09::offsets_for(r, seed, i, true).into_iter().filter(|x| x.abs() > 13));
                    }
                    for &ym in &offs {
                        st.evaluations += 1;
                        st.nontrivial_enum += 1;
                        if let Err(m) = check_add_ym(r.n, t, ym) {
                            st.fail(i, Case::new(P, "add_ym", vec![r.n as i128, t as i128, ym as i128], vec![]), m);
                            return;
                        }
                    }
                    for &dt in dts.iter() {
                        st.evaluations += 1;
                        st.nontrivial_enum += 1;
                        if let Err(m) = check_add_dt(r.n, t, dt) {
                            st.fail(i, Case::new(P, "add_dt", vec![r.n as i128, t as i128, dt], vec![]), m);
                            return;
                        }
                    }
                }
            }
            // intervals built from the value itself, for every time of day of the sweep: its own
            // time of day (alone and with whole days), the complement to midnight, with a fraction
            for &t in times.iter() {
                let tt = t as i128;
                if tt == 0 {
                    continue;
                }
                for dt in [tt, 3 * US_PER_DAY + tt, US_PER_DAY - tt, tt + 250_000, 2 * US_PER_DAY + (US_PER_DAY - tt) - 360_000] {
                    st.evaluations += 1;
                    st.nontrivial_enum += 1;
                    if let Err(m) = check_add_dt(r.n, t, dt) {
                        st.fail(i, Case::new(P, "add_dt", vec![r.n as i128, t as i128, dt], vec![]), m);
                        return;
                    }
                }
            }
            // differences and mixed comparisons against neighbours and a seeded partner
            let partners = [r.n, (r.n + 1).min(c.last), (r.n - 1).max(c.first), c.first, c.last, 0, c.first + sm.below(c.len() as u64) as i32];
            for &p in &partners {
                let t2 = [0i64, 1, 43_200_000_000, 86_399_999_999][sm.below(4) as usize];
                st.evaluations += 1;
                st.nontrivial_enum += 1;
                if let Err(m) = check_diff(r.n, p, t2) {
                    st.fail(i, Case::new(P, "diff", vec![r.n as i128, p as i128, t2 as i128], vec![]), m);
                    return;
                }
                for dx in [0i128, 1, -1, US_PER_SEC, -US_PER_SEC, US_PER_DAY - 1] {
                    let x = (p as i128 * US_PER_DAY + dx).clamp(ts_min(), ts_max());
                    let o = x.div_euclid(US_PER_SEC) * US_PER_SEC;
                    st.evaluations += 1;
                    st.nontrivial_enum += 1;
                    if (r.n as i128 * US_PER_DAY < 0) != (x < 0) {
                        st.class("comparison-across-1970");
                    }
                    if let Err(m) = check_cmp(r.n, x, o) {
                        st.fail(i, Case::new(P, "cmp", vec![r.n as i128, x, o], vec![]), m);
                        return;
                    }
                    // the oracle date one second later / earlier than the timestamp
                    for od in [o + US_PER_SEC, o - US_PER_SEC] {
                        if ora_in_range(od) {
                            st.evaluations += 1;
                            if let Err(m) = check_cmp(r.n, x, od) {
                                st.fail(i, Case::new(P, "cmp", vec![r.n as i128, x, od], vec![]), m);
                                return;
                            }
                        }
                    }
                }
            }
            let key = mix64(seed ^ mix64(i ^ 0x1717));
            if key < st.sample_threshold() {
                st.sample(key, || json!({"date": format!("{:04}-{:02}-{:02}", r.y, r.m, r.d), "checked": "24 trunc/round units x whole-second times through Date/Timestamp/OracleDate, last_day_of_month, +-months, +-intervals, differences, mixed comparisons"}));
            }
        }
    });
    st.merge(s);
    st.exhaustive_sections.push("all dates x critical whole-second times (4 in quick, 11 in thorough) x 24 trunc/round units; all dates x last_day_of_month, month/interval offsets, differences, mixed comparisons".into());
    st.section("all_dates_shared_operations", &mut mark);

    // every second of a few days before, at and after 1970 x 24 trunc / round units
    {
        let days: Vec<i32> = vec![c.first, c.lookup(1600, 2, 29).unwrap(), c.lookup(1969, 7, 20).unwrap(), -1, 0, c.lookup(2024, 12, 30).unwrap(), c.last - 1];
        let dref = &days;
        let s = par_sweep(days.len() as u64 * 86_400, 2048, |range, st| {
            for k in range {
                let (n, t) = (dref[(k / 86_400) as usize], (k % 86_400) as i64 * 1_000_000);
                for u in UNITS {
                    for round in [false, true] {
                        st.evaluations += 1;
                        st.nontrivial_enum += 1;
                        if let Err(m) = check_unit(round, u, n, t) {
                            st.fail(k, Case::new(P, "unit", vec![round as i128, u.index() as i128, n as i128, t as i128], vec![]), m);
                            return;
                        }
                    }
                }
            }
        });
        st.merge(s);
    }
    st.exhaustive_sections.push("every second of seven days (range ends, before / at / after 1970) x 24 trunc / round units through Timestamp and OracleDate".into());
    st.section("every_second_of_sampled_days", &mut mark);

    // random pairs for the mixed comparisons
    let tp = pools::ts_pool(seed, if ctx.thorough { 3000 } else { 500 });
    let dp = pools::date_pool(seed, 200);
    let s = par_sweep((tp.len() * dp.len()) as u64, 8192, |range, st| {
        for k in range {
            let (x, n) = (tp[k as usize / dp.len()], dp[k as usize % dp.len()]);
            let o = tp[(k as usize * 7 + 3) % tp.len()].div_euclid(US_PER_SEC) * US_PER_SEC;
            st.evaluations += 1;
            st.fps.push(hash_ints(17, &[n, x, o]));
            if let Err(m) = check_cmp(n as i32, x, o) {
                st.fail(k, Case::new(P, "cmp", vec![n, x, o], vec![]), m);
                return;
            }
        }
    });
    st.merge(s);
    st.section("mixed_comparison_pairs", &mut mark);

    let rep = Report {
        rule: "Differential / metamorphic, no reference model: for every date and every critical whole-second time of day, each of the 12 trunc and 12 round units is applied through Timestamp and OracleDate (and through Date at midnight) and the results must denote the same instant or all be errors (also for every second of seven days before, at and after 1970); likewise last_day_of_month, +-16 month offsets, +-day-time intervals (Oracle result = timestamp result floored to the second), differences through all subtraction variants of the three types, and mixed-type ==, !=, <, <=, >, >=, partial_cmp in both argument orders against the comparison of the converted raw counts, plus OracleDate vs OracleDate (every operator, cmp, max / min / clamp / sort) (structured neighbours +-1us/+-1s/+-1day/range ends/across 1970 for every date, plus boundary-pool x pool pairs). Non-trivial: every compared pair involves two independent code paths; distinct by enumeration / fingerprint.".into(),
        assumptions: vec!["independent of the C10/C11 oracles: holds in the presence of known finding K1, which the three types share".into()],
        exhaustive: true,
        extra: Default::default(),
    };
    (st, rep)
}
