//! C18 – missing date fields default from the current local date, and only then.
//! Needs the `verif-hooks` feature of the library (thread-local injectable clock).

use super::c05::check_parse;
use crate::adapter as ad;
use crate::engine::*;
use crate::model::cal::*;
use crate::model::text::*;
use crate::pools;
use serde_json::json;
use sqldatetime::{Date, OracleDate, Time, Timestamp};
use std::convert::TryFrom;

const P: &str = "C18";

#[derive(Clone, Copy, Debug)]
pub struct Clock {
    pub n: i32,
    pub tod: i64,
}

fn set(c: &Clock) -> Row {
    let r = *cal().row(c.n as i64).expect("clock date in range");
    let t = c.tod as i128;
    ad::clock_set(r.y, r.m as u32, r.d as u32, (t / US_PER_HOUR) as u32, (t % US_PER_HOUR / US_PER_MIN) as u32, (t % US_PER_MIN / US_PER_SEC) as u32, (t % US_PER_SEC) as u32);
    r
}

/// One parse under the clock (day n, time tod): the expected value is computed here from the
/// model defaults, `spec` says how.
/// spec kinds (i[3]):
///  0: day only "DD" (i[4] = day)            1: month only "MM" (i[4] = month)
///  2: "MM-DD" (i[4], i[5])                   3: "MON DD" (i[4], i[5])
///  4: "YYYY" (i[4] = year)                   5: "YYYY-DD" (i[4], i[5])
///  6: "DDD" (i[4])                           7: short year, i[4] = digits n (1..3), i[5] = value, picture Y{n}-MM-DD with month/day from i[6], i[7]
///  8: empty picture                          9: time only "HH24:MI" (i[4], i[5])
/// 10: "HH:MI AM" with empty text            11: "SS" (i[4])
/// 12: ".FF" (i[4] = microseconds/1000)      13: short year alone Y{n} (i[4] = n, i[5] = value)
/// 14: "DD HH:MI PM" day + 12-hour time (i[4] day, i[5] hour12, i[6] minute, i[7] pm)
pub const TIME_PICS: [&[&str]; 16] = [
    &["HH24", ":", "MI", ":", "SS", ".", "FF"],
    &["HH", ":", "MI", ":", "SS", " ", "AM"],
    &["AM", " ", "HH", ":", "MI", ":", "SS"],
    &["P.M.", " ", "HH12"],
    &["MI", ":", "SS", " ", "HH24"],
    &["SS", " ", "PM", " ", "HH12", " ", "MI"],
    &["FF3", " ", "HH24"],
    &["A.M.", ":", "MI", ":", "HH12"],
    &["AM", "HH"],
    &["PM", ":", "MI", ":", "HH"],
    &["SS", ".", "FF", " ", "MI", " ", "HH24"],
    &["HH12", " ", "PM", " ", "MI", ":", "SS"],
    // a meridian without any hour token: the omitted 12-hour field is 12, read with the meridian
    &["PM"],
    &["MI", " ", "P.M."],
    &["AM", ":", "MI", ":", "SS"],
    &["SS", ".", "FF3", " ", "A.M."],
];

pub fn check_default(kind: Kind, clock: Clock, spec: &[i128]) -> Result<(), String> {
    let c = cal();
    let r = set(&clock);
    let (cy, cm) = (r.y as i64, r.m as i64);
    let date = |y: i64, m: i64, d: i64| -> Option<i128> { c.lookup(y, m, d).map(|n| n as i128) };
    let with_time = |d: Option<i128>, tod: i128| -> Option<i128> {
        d.map(|n| match kind {
            Kind::Date => n,
            _ => n * US_PER_DAY + tod,
        })
    };
    let short = |n: u32, v: i64| -> i64 { cy - cy % 10i64.pow(n) + v };
    let a = |k: usize| spec.get(k).copied().unwrap_or(0) as i64;
    let (pic, text, want): (String, String, Option<i128>) = match spec[0] {
        0 => ("DD".into(), format!("{}", a(1)), with_time(date(cy, cm, a(1)), 0)),
        1 => ("MM".into(), format!("{:02}", a(1)), with_time(date(cy, a(1), 1), 0)),
        2 => ("MM-DD".into(), format!("{:02}-{:02}", a(1), a(2)), with_time(date(cy, a(1), a(2)), 0)),
        3 => ("MON DD".into(), format!("{} {}", &MONTH_NAMES[a(1) as usize - 1][..3], a(2)), with_time(date(cy, a(1), a(2)), 0)),
        4 => ("YYYY".into(), format!("{:04}", a(1)), with_time(date(a(1), cm, 1), 0)),
        5 => ("YYYY-DD".into(), format!("{:04}-{:02}", a(1), a(2)), with_time(date(a(1), cm, a(2)), 0)),
        6 => ("DDD".into(), format!("{:03}", a(1)), with_time(c.lookup_doy(cy, a(1)).map(|n| n as i128), 0)),
        7 => {
            let n = a(1) as u32;
            let y = short(n, a(2));
            (format!("{}-MM-DD", "Y".repeat(n as usize)), format!("{}-{:02}-{:02}", a(2), a(3), a(4)), with_time(date(y, a(3), a(4)), 0))
        }
        8 => ("".into(), "".into(), with_time(date(cy, cm, 1), 0)),
        9 => ("HH24:MI".into(), format!("{:02}:{:02}", a(1), a(2)), with_time(date(cy, cm, 1), a(1) as i128 * US_PER_HOUR + a(2) as i128 * US_PER_MIN)),
        10 => ("HH:MI AM".into(), "".into(), with_time(date(cy, cm, 1), 12 * US_PER_HOUR)),
        11 => ("SS".into(), format!("{:02}", a(1)), with_time(date(cy, cm, 1), a(1) as i128 * US_PER_SEC)),
        12 => (".FF".into(), format!(".{:03}", a(1)), with_time(date(cy, cm, 1), a(1) as i128 * 1000)),
        13 => {
            let n = a(1) as u32;
            let y = short(n, a(2));
            ("Y".repeat(n as usize), format!("{}", a(2)), with_time(date(y, cm, 1), 0))
        }
        14 => {
            let h24 = (a(2) % 12) + if a(4) != 0 { 12 } else { 0 };
            ("DD HH:MI PM".into(), format!("{} {}:{:02} {}", a(1), a(2), a(3), if a(4) != 0 { "pm" } else { "AM" }), with_time(date(cy, cm, a(1)), h24 as i128 * US_PER_HOUR + a(3) as i128 * US_PER_MIN))
        }
        // 15: short year + day of year "Y{n} DDD"   (n, value, doy, order)
        15 => {
            let n = a(1) as u32;
            let y = short(n, a(2));
            let ys = format!("{:0w$}", a(2), w = n as usize);
            if a(4) == 0 {
                (format!("{} DDD", "Y".repeat(n as usize)), format!("{ys} {:03}", a(3)), with_time(c.lookup_doy(y, a(3)).map(|n| n as i128), 0))
            } else {
                (format!("DDD-{}", "Y".repeat(n as usize)), format!("{}-{ys}", a(3)), with_time(c.lookup_doy(y, a(3)).map(|n| n as i128), 0))
            }
        }
        // 16: short year + month only "MM/Y{n}" (day defaults to 1)
        16 => {
            let n = a(1) as u32;
            let y = short(n, a(2));
            (format!("MM/{}", "Y".repeat(n as usize)), format!("{}/{}", a(3), a(2)), with_time(date(y, a(3), 1), 0))
        }
        // 17: short year + day only "Y{n} DD" (month from the clock)
        17 => {
            let n = a(1) as u32;
            let y = short(n, a(2));
            (format!("{} DD", "Y".repeat(n as usize)), format!("{} {}", a(2), a(3)), with_time(date(y, cm, a(3)), 0))
        }
        // 18: short year with an explicit '+' (n, value, with month-day?)
        18 => {
            let n = a(1) as u32;
            let y = short(n, a(2));
            if a(3) == 0 {
                ("Y".repeat(n as usize), format!("+{}", a(2)), with_time(date(y, cm, 1), 0))
            } else {
                (format!("DD.MM.{}", "Y".repeat(n as usize)), format!("04.03.+{}", a(2)), with_time(date(y, 3, 4), 0))
            }
        }
        // 19: omission grid: time part TIME_PICS[i[4]] (several field orders, meridian before or
        //     after the 12-hour field) spelled up to token i[5], time of day i[6] seconds + i[7] ms,
        //     date prefix i[8] (0 none, 1 "DD ", 2 "YYYY-MM-DD ")
        19 => {
            let toks = TIME_PICS[a(1) as usize % TIME_PICS.len()];
            let cut = (a(2) as usize).min(toks.len());
            let (h, mi, se, ms) = (a(3) / 3600 % 24, a(3) / 60 % 60, a(3) % 60, a(4) % 1000);
            let (mut pic, mut text, d) = match a(5) {
                1 => ("DD ".to_string(), "17 ".to_string(), date(cy, cm, 17)),
                2 => ("YYYY-MM-DD ".to_string(), "1969-07-20 ".to_string(), date(1969, 7, 20)),
                _ => (String::new(), String::new(), date(cy, cm, 1)),
            };
            let is = |i: usize, names: &[&str]| i < cut && names.contains(&toks[i]);
            let spelled = |names: &[&str]| (0..toks.len()).any(|i| is(i, names));
            let mer = ["AM", "PM", "A.M.", "P.M."];
            if spelled(&["HH", "HH12"]) && !spelled(&mer) {
                return Ok(()); // not generated: a spelled 12-hour field always has its meridian spelled
            }
            for (i, t) in toks.iter().enumerate() {
                pic.push_str(t);
                if i >= cut {
                    continue;
                }
                match *t {
                    "HH24" => text.push_str(&format!("{h:02}")),
                    "HH" | "HH12" => text.push_str(&format!("{}", (h + 11) % 12 + 1)),
                    "MI" => text.push_str(&format!("{mi:02}")),
                    "SS" => text.push_str(&format!("{se:02}")),
                    "FF" => text.push_str(&format!("{:06}", ms * 1000)),
                    "FF3" => text.push_str(&format!("{ms:03}")),
                    "AM" | "PM" => text.push_str(if h < 12 { "am" } else { "PM" }),
                    "A.M." | "P.M." => text.push_str(if h < 12 { "A.M." } else { "p.m." }),
                    sep => text.push_str(sep),
                }
            }
            let has12 = toks.iter().any(|t| *t == "HH" || *t == "HH12");
            let hour = if has12 {
                match (spelled(&["HH", "HH12"]), spelled(&mer)) {
                    (true, _) => h,
                    (false, true) => {
                        if h < 12 {
                            0
                        } else {
                            12
                        }
                    }
                    (false, false) => 12,
                }
            } else if spelled(&["HH24"]) {
                h
            } else if !toks.contains(&"HH24") && spelled(&mer) {
                // no hour token at all: 12 AM = 00:xx, 12 PM = 12:xx
                if h < 12 {
                    0
                } else {
                    12
                }
            } else {
                0
            };
            let tod = hour as i128 * US_PER_HOUR
                + if spelled(&["MI"]) { mi as i128 * US_PER_MIN } else { 0 }
                + if spelled(&["SS"]) { se as i128 * US_PER_SEC } else { 0 }
                + if spelled(&["FF", "FF3"]) { ms as i128 * 1000 } else { 0 };
            let has_ff = toks.iter().any(|t| t.starts_with("FF"));
            let want = if kind == Kind::Date || (kind == Kind::Ora && has_ff) { None } else { with_time(d, tod) };
            (pic, text, want)
        }
        // 20: a short year written with a minus sign (n, value, shape): denotes no date, under any clock
        20 => {
            let n = a(1) as usize;
            let y = "Y".repeat(n);
            match a(3) {
                0 => (y, format!("-{}", a(2)), None),
                1 => (format!("{y}-MM-DD"), format!("-{}-03-05", a(2)), None),
                2 => (format!("DD.MM.{y}"), format!("05.03.-{}", a(2)), None),
                _ => (format!("{y} MON DD HH24:MI:SS"), format!("-{} Mar 05 10:20:30", a(2)), None),
            }
        }
        // 21: a fraction that rounds up at 23:59:59 under a picture that leaves the year and / or the
        //     month to the clock: the defaults apply first, then the carry moves into the next day
        //     (shape, month, day)
        21 => {
            let (m, d) = (a(2), a(3));
            let (pic, text, base) = match a(1) {
                0 => ("MM-DD HH24:MI:SS.FF7".to_string(), format!("{m:02}-{d:02} 23:59:59.9999996"), date(cy, m, d)),
                1 => ("DD HH24:MI:SS.FF9".to_string(), format!("{d} 23:59:59.9999996"), date(cy, cm, d)),
                2 => ("HH24:MI:SS.FF8".to_string(), "23:59:59.99999951".to_string(), date(cy, cm, 1)),
                _ => ("YYYY DD HH24:MI:SS.FF".to_string(), format!("{:04} {d} 23:59:59.9999995", cy), date(cy, cm, d)),
            };
            // the day after `base`, if there is one inside the range
            let next = base.and_then(|n| if (n as i64) < c.last as i64 { Some(n + 1) } else { None });
            let want = if kind == Kind::Ts { next.map(|n| n * US_PER_DAY) } else { None };
            (pic, text, want)
        }
        // 22: a weekday but no day of month / day of year: the omitted day is 1, and the written
        //     weekday must be that day's (shape, weekday offset, month, year)
        22 => {
            let (m, y) = (a(3), a(4));
            let (d, shape) = match a(1) {
                0 => (date(cy, cm, 1), 0),
                1 => (date(cy, m, 1), 1),
                2 => (date(y, m, 1), 2),
                _ => (date(y, cm, 1), 3),
            };
            // weekday of the resolved date (if it exists), shifted by the offset
            let wd = d.and_then(|n| c.row(n as i64).map(|r| r.wd as i64)).unwrap_or(1);
            let w = ((wd - 1 + a(2)).rem_euclid(7) + 1) as usize;
            let (pic, text) = match shape {
                0 => ("DY".to_string(), DAY_NAMES[w - 1][..3].to_string()),
                1 => ("MM DAY".to_string(), format!("{m:02} {}", DAY_NAMES[w - 1])),
                2 => ("YYYY-MM Dy".to_string(), format!("{y:04}-{m:02} {}", &DAY_NAMES[w - 1][..3])),
                _ => ("D YYYY HH24:MI".to_string(), format!("{w} {y:04} 10:30")),
            };
            let tod = if shape == 3 { 10 * US_PER_HOUR + 30 * US_PER_MIN } else { 0 };
            let want = if a(2).rem_euclid(7) == 0 { if shape == 3 && kind == Kind::Date { None } else { with_time(d, tod) } } else { None };
            (pic, text, want)
        }
        k => return Err(format!("unknown default spec {k}")),
    };
    // time-bearing specs make no sense for the plain Date type: an error is required there
    let want = if kind == Kind::Date && matches!(spec[0], 9 | 10 | 11 | 12 | 14) { None } else { want };
    let _ = ();
    let want = if kind == Kind::Ora && spec[0] == 12 { None } else { want };
    // check_parse goes through T::parse, a fresh Formatter and a long-lived Formatter
    let res = check_parse(kind, &pic, &text, want);
    ad::clock_clear();
    res.map_err(|m| format!("with the current local date {:04}-{:02}-{:02} (+{}us): {m}", r.y, r.m, r.d, clock.tod))
}

/// Complete pictures: the same text under different clocks gives the same value.
pub fn check_complete(kind: Kind, pic: &str, text: &str, expect: i128, clocks: &[Clock]) -> Result<(), String> {
    for ck in clocks {
        let r = set(ck);
        let res = check_parse(kind, pic, text, Some(expect));
        ad::clock_clear();
        res.map_err(|m| format!("with the current local date {:04}-{:02}-{:02}: {m} (a complete date must not depend on the clock)", r.y, r.m, r.d))?;
    }
    Ok(())
}

/// now() constructors and time-of-day conversions report the injected instant.
pub fn check_now(clock: Clock, t: i64) -> Result<(), String> {
    let r = set(&clock);
    let inst = clock.n as i128 * US_PER_DAY + clock.tod as i128;
    let out = guarded(|| -> Result<(), String> {
        let reads0 = ad::clock_reads();
        match Date::now() {
            Ok(d) if d.days() == clock.n => {}
            other => return Err(format!("Date::now() = {:?}, expected day {}", other.map(|d| d.days()), clock.n)),
        }
        match Timestamp::now() {
            Ok(x) if x.usecs() as i128 == inst => {}
            other => return Err(format!("Timestamp::now() = {:?}, expected {inst}", other.map(|d| d.usecs()))),
        }
        match OracleDate::now() {
            Ok(x) if x.usecs() as i128 == inst.div_euclid(US_PER_SEC) * US_PER_SEC => {}
            other => return Err(format!("OracleDate::now() = {:?}, expected {} (floored to the second)", other.map(|d| d.usecs()), inst.div_euclid(US_PER_SEC) * US_PER_SEC)),
        }
        let tm = ad::time(t);
        let want = clock.n as i128 * US_PER_DAY + t as i128;
        match Timestamp::try_from(tm) {
            Ok(x) if x.usecs() as i128 == want => {}
            other => return Err(format!("Timestamp::try_from(Time {t}) = {:?}, expected today + time = {want}", other.map(|d| d.usecs()))),
        }
        match OracleDate::try_from(tm) {
            Ok(x) if x.usecs() as i128 == want.div_euclid(US_PER_SEC) * US_PER_SEC => {}
            other => return Err(format!("OracleDate::try_from(Time {t}) = {:?}, expected {}", other.map(|d| d.usecs()), want.div_euclid(US_PER_SEC) * US_PER_SEC)),
        }
        if ad::clock_reads() <= reads0 {
            return Err("harness: the clock hook was not consulted".into());
        }
        Ok(())
    })
    .unwrap_or_else(|p| Err(p));
    ad::clock_clear();
    out.map_err(|m| format!("with the current local instant {:04}-{:02}-{:02} +{}us: {m}", r.y, r.m, r.d, clock.tod))
}

/// The clock reports a leap second (chrono: second 59 with 1_000_000..=1_999_999 us). The
/// statement does not say what "now" is then; whatever a now() constructor returns must be an
/// error or an in-range value (whole second for the Oracle-style date) inside the two seconds
/// that start at hh:mm:59 of the clock date.
pub fn check_now_leap(n: i32, h: u32, mi: u32, us: u32) -> Result<(), String> {
    let r = *cal().row(n as i64).ok_or("clock date out of range")?;
    if !(1_000_000..2_000_000).contains(&us) {
        return Err("harness: not a leap-second microsecond count".into());
    }
    ad::clock_set(r.y, r.m as u32, r.d as u32, h, mi, 59, us);
    let base = n as i128 * US_PER_DAY + pools::hms(h as i128, mi as i128, 59, 0);
    let out = guarded(|| -> Result<(), String> {
        let reads0 = ad::clock_reads();
        if let Ok(d) = Date::now() {
            if d.days() != n && d.days() != n + 1 {
                return Err(format!("Date::now() = day {}, the clock says day {n}", d.days()));
            }
        }
        let inside = |x: i128| x >= base && x < base + 2 * US_PER_SEC;
        if let Ok(x) = Timestamp::now() {
            let x = x.usecs() as i128;
            if !ts_in_range(x) || !inside(x) {
                return Err(format!("Timestamp::now() = {x} ({}), outside the timestamp range or not within the leap second's two seconds", super::c05::show(Kind::Ts, x)));
            }
        }
        if let Ok(x) = OracleDate::now() {
            let x = x.usecs() as i128;
            if !ora_in_range(x) || !inside(x) {
                return Err(format!("OracleDate::now() = {x}, outside the range / not a whole second / not within the leap second's two seconds"));
            }
        }
        for t in [0i64, 86_399_999_999] {
            if let Ok(x) = Timestamp::try_from(ad::time(t)) {
                if !ts_in_range(x.usecs() as i128) {
                    return Err(format!("Timestamp::try_from(Time {t}) = {} outside the timestamp range", x.usecs()));
                }
            }
            if let Ok(x) = OracleDate::try_from(ad::time(t)) {
                if !ora_in_range(x.usecs() as i128) {
                    return Err(format!("OracleDate::try_from(Time {t}) = {} outside the range / not a whole second", x.usecs()));
                }
            }
        }
        if ad::clock_reads() <= reads0 {
            return Err("harness: the clock hook was not consulted".into());
        }
        Ok(())
    })
    .unwrap_or_else(|p| Err(p));
    ad::clock_clear();
    out.map_err(|m| format!("with the clock at {:04}-{:02}-{:02} {h:02}:{mi:02}:59 + {us} us (a leap second): {m}", r.y, r.m, r.d))
}

/// The clock-reading constructors WITHOUT the hook, under a process time zone chosen so that the
/// local calendar date differs from the UTC date right now (UTC+13 or UTC-13): all five must
/// report the same, local, date. The wall clock only selects the zone; the oracle is the agreement
/// of the five reads with each other and with system time shifted by the zone offset.
/// Returns Ok(false) when the zone setting is not honoured in this environment (nothing to judge).
pub fn check_real_clock_coherence() -> Result<bool, String> {
    use std::time::{SystemTime, UNIX_EPOCH};
    ad::clock_clear();
    let saved = std::env::var("TZ").ok();
    let secs = SystemTime::now().duration_since(UNIX_EPOCH).map_err(|e| e.to_string())?.as_secs() as i64;
    let hour = secs.rem_euclid(86_400) / 3600;
    // POSIX TZ: "XXX-13" is 13 hours EAST of UTC (local = UTC + 13)
    let (tz, shift) = if hour >= 12 { ("VRF-13", 13 * 3600i64) } else { ("VRF+13", -13 * 3600i64) };
    std::env::set_var("TZ", tz);
    let mut out = Ok(false);
    for _attempt in 0..4 {
        let r = guarded(|| {
            let d0 = Date::now().map(|d| d.days());
            let ts = Timestamp::now().map(|x| x.usecs().div_euclid(86_400_000_000) as i32);
            let od = OracleDate::now().map(|x| x.usecs().div_euclid(86_400_000_000) as i32);
            let t = ad::time(43_200_000_000);
            let a = Timestamp::try_from(t).map(|x| x.usecs().div_euclid(86_400_000_000) as i32);
            let b = OracleDate::try_from(t).map(|x| x.usecs().div_euclid(86_400_000_000) as i32);
            let d1 = Date::now().map(|d| d.days());
            (d0, ts, od, a, b, d1)
        });
        let secs2 = SystemTime::now().duration_since(UNIX_EPOCH).map_err(|e| e.to_string())?.as_secs() as i64;
        match r {
            Err(p) => {
                out = Err(format!("clock-reading constructors without the hook under TZ={tz}: {p}"));
                break;
            }
            Ok((Ok(d0), Ok(ts), Ok(od), Ok(a), Ok(b), Ok(d1))) => {
                let local_before = (secs + shift).div_euclid(86_400) as i32;
                let local_after = (secs2 + shift).div_euclid(86_400) as i32;
                if d0 != d1 || local_before != local_after {
                    continue; // a midnight passed during the reads: try again
                }
                let utc = secs.div_euclid(86_400) as i32;
                let all = [d0, ts, od, a, b];
                if all.iter().all(|x| *x == utc) && utc != local_before {
                    out = Ok(false); // the zone setting is not honoured here
                    break;
                }
                if all.iter().any(|x| *x != local_before) {
                    out = Err(format!("under TZ={tz} (local date = day {local_before}, UTC date = day {utc}) the un-hooked clock readers disagree: Date::now {d0}, Timestamp::now {ts}, OracleDate::now {od}, Timestamp::try_from(Time) {a}, OracleDate::try_from(Time) {b} - all must report the current LOCAL date"));
                } else {
                    out = Ok(true);
                }
                break;
            }
            Ok(other) => {
                out = Err(format!("a clock-reading constructor failed without the hook under TZ={tz}: {other:?}"));
                break;
            }
        }
    }
    match saved {
        Some(v) => std::env::set_var("TZ", v),
        None => std::env::remove_var("TZ"),
    }
    out
}

pub fn eval(case: &Case) -> Verdict {
    if case.kind == "real_clock" {
        return match check_real_clock_coherence() {
            Ok(_) => Verdict::Pass,
            Err(m) => Verdict::Fail(m),
        };
    }
    let i = &case.i;
    let r = match case.kind.as_str() {
        "default" => check_default(Kind::from_index(i[0] as usize), Clock { n: i[1] as i32, tod: i[2] as i64 }, &i[3..]),
        "complete" => {
            let clocks: Vec<Clock> = i[2..].chunks(2).map(|c| Clock { n: c[0] as i32, tod: c[1] as i64 }).collect();
            check_complete(Kind::from_index(i[0] as usize), &case.s[0], &case.s[1], i[1], &clocks)
        }
        "now" => check_now(Clock { n: i[0] as i32, tod: i[1] as i64 }, i[2] as i64),
        "now_leap" => check_now_leap(i[0] as i32, i[1] as u32, i[2] as u32, i[3] as u32),
        k => Err(format!("unknown case kind {k}")),
    };
    match r {
        Ok(()) => Verdict::Pass,
        Err(m) => Verdict::Fail(m),
    }
}

fn specs_for(r: &Row, idx: u64, seed: u64, thorough: bool) -> Vec<Vec<i128>> {
    let mut v: Vec<Vec<i128>> = vec![];
    let mut sm = SplitMix(seed ^ mix64(idx ^ 0x18));
    let len = month_len(r.y, r.m as u32) as i128;
    v.push(vec![8]);
    for d in [1i128, 28, 29, 30, 31, len, len + 1] {
        v.push(vec![0, d]);
    }
    for m in [1i128, 2, 12, 1 + sm.below(12) as i128] {
        v.push(vec![1, m]);
    }
    // a field that is present but outside its domain is not a missing field: no date is denoted,
    // whatever the clock (month 0 / 13, day 0 / 32, day of year 0 / 367, year 0)
    for bad in [vec![1i128, 0], vec![1, 13], vec![0, 0], vec![0, 32], vec![2, 0, 15], vec![2, 13, 15], vec![2, 6, 0], vec![2, 0, 0], vec![6, 0], vec![6, 367], vec![4, 0], vec![5, 0, 15], vec![5, 2000, 0]] {
        v.push(bad);
    }
    for (m, d) in [(2i128, 29i128), (2, 28), (12, 31), (4, 31), (1 + sm.below(12) as i128, 1 + sm.below(31) as i128)] {
        v.push(vec![2, m, d]);
        v.push(vec![3, m, d]);
    }
    for y in [1i128, 9999, 2000, 1900, 1 + sm.below(9999) as i128] {
        v.push(vec![4, y]);
        v.push(vec![5, y, 31]);
        v.push(vec![5, y, 29]);
    }
    for doy in [1i128, 59, 60, 365, 366, 1 + sm.below(366) as i128] {
        v.push(vec![6, doy]);
    }
    // short years: every value class
    let y1: Vec<i128> = if thorough { (0..=9).collect() } else { vec![0, 1, 9, sm.below(10) as i128] };
    for val in y1 {
        v.push(vec![13, 1, val]);
        v.push(vec![7, 1, val, 2, 29]);
    }
    let y2: Vec<i128> = if thorough { (0..=99).collect() } else { vec![0, 1, 9, 10, 99, sm.below(100) as i128] };
    for val in y2 {
        v.push(vec![13, 2, val]);
        if val % 7 == 0 {
            v.push(vec![7, 2, val, 2, 29]);
        }
    }
    let mut y3: Vec<i128> = vec![0, 1, 9, 10, 99, 100, 999, sm.below(1000) as i128];
    if thorough {
        for _ in 0..52 {
            y3.push(sm.below(1000) as i128);
        }
    }
    for val in y3 {
        v.push(vec![13, 3, val]);
        v.push(vec![7, 3, val, 12, 31]);
    }
    // short years crossed with day of year / month / day
    let ns: Vec<i128> = if thorough { vec![1, 2, 3] } else { vec![1 + (idx % 3) as i128] };
    for n in ns {
        let m = 10i128.pow(n as u32);
        let vals: Vec<i128> = if thorough { vec![0, 1, m - 1, sm.below(m as u64) as i128] } else { vec![0, if idx % 2 == 0 { m - 1 } else { sm.below(m as u64) as i128 }] };
        for val in vals {
            for doy in [1i128, 59, 60, 61, 365, 366] {
                v.push(vec![15, n, val, doy, (doy + val) % 2]);
            }
            v.push(vec![16, n, val, 2]);
            v.push(vec![16, n, val, 1 + sm.below(12) as i128]);
            v.push(vec![17, n, val, 29]);
            v.push(vec![17, n, val, 31]);
        }
    }
    // a leading '+' on a short year (for YY only one digit: '+' and two digits read as a full year)
    for (n, val) in [(1i128, 5i128), (1, 0), (3, 123), (3, 7), (3, 45), (2, 5), (1, sm.below(10) as i128), (3, sm.below(1000) as i128)] {
        v.push(vec![18, n, val, (val + idx as i128) % 2]);
    }
    // a carrying fraction under pictures that take year / month from the clock
    for (shape, m, d) in [(0i128, 12i128, 31i128), (0, 2, 28), (0, 2, 29), (1, 0, len), (1, 0, 28), (2, 0, 0), (3, 0, len), (0, 1 + sm.below(12) as i128, 1 + sm.below(28) as i128)] {
        v.push(vec![21, shape, m, d]);
    }
    // a '-' on a short year
    for (n, val) in [(1i128, 5i128), (2, 5), (2, 24), (3, 123), (1 + (idx % 3) as i128, sm.below(10) as i128 + 1)] {
        v.push(vec![20, n, val, ((idx as i128 + n + val) % 4)]);
    }
    // a weekday without a day: the 1st, with the right and with a wrong weekday
    for shape in 0..4i128 {
        let (m, y) = (1 + sm.below(12) as i128, 1 + sm.below(9999) as i128);
        v.push(vec![22, shape, 0, m, y]);
        v.push(vec![22, shape, 1 + sm.below(6) as i128, m, y]);
    }
    v.push(vec![9, 13, 45]);
    v.push(vec![9, 0, 0]);
    v.push(vec![10]);
    v.push(vec![11, 30]);
    v.push(vec![12, 500]);
    v.push(vec![14, 31, 12, 30, 0]);
    v.push(vec![14, 1, 12, 0, 1]);
    v.push(vec![14, len, 1 + sm.below(12) as i128, sm.below(60) as i128, sm.below(2) as i128]);
    // omission grid: two (picture, cut, time, prefix) combinations per clock, all of them over the sweep
    for _ in 0..if thorough { 6 } else { 2 } {
        let p = sm.below(TIME_PICS.len() as u64) as usize;
        v.push(vec![19, p as i128, sm.below(TIME_PICS[p].len() as u64 + 1) as i128, sm.below(86_400) as i128, sm.below(1000) as i128, sm.below(3) as i128]);
    }
    v
}

pub fn run(ctx: &Ctx) -> (Stats, Report) {
    let c = cal();
    let mut st = Stats::new();
    let mut mark = (0, 0);
    run_replays(P, &mut st, &eval);
    st.section("replays", &mut mark);
    let seed = ctx.seed;
    // before any worker thread exists: the un-hooked readers under a shifted process time zone
    st.evaluations += 5;
    match check_real_clock_coherence() {
        Ok(true) => st.class_n("real-clock-readers-agree-on-the-local-date-under-a-shifted-zone", 5),
        Ok(false) => st.class_n("process-time-zone-not-honoured-here-skipped", 5),
        Err(m) => st.fail(0, Case::new(P, "real_clock", vec![], vec![]), m),
    }
    st.section("real_clock_local_date", &mut mark);
    // injected times of day: midnight, inside the first second, mid-day with a fraction, the last
    // microsecond. Thorough: all of them under every date; quick: one per date, rotating with the
    // date, so that every class meets a fifth of all dates (before and after 1970).
    let tod_classes: Vec<i64> = vec![pools::hms(12, 34, 56, 789_012) as i64, 0, 500_000, (US_PER_DAY - 1) as i64, 1];
    let tods: Vec<i64> = if ctx.thorough { tod_classes[..4].to_vec() } else { vec![tod_classes[0]] };
    let rotate = !ctx.thorough;

    // every possible current local date
    let tref = &tods;
    let tcl = &tod_classes;
    let s = par_sweep(c.len() as u64, 1 << 10, |range, st| {
        for i in range {
            let r = &c.rows[i as usize];
            let special = r.d as u32 == month_len(r.y, r.m as u32) || (r.m == 12 && r.d == 31) || r.y % 100 == 0 || (r.m == 2 && r.d == 29) || r.y < 1000 || r.y == 9999;
            for (ti, &tod) in tref.iter().enumerate() {
                let tod = if rotate { tcl[(i % tcl.len() as u64) as usize] } else { tod };
                let clock = Clock { n: r.n, tod };
                let specs = specs_for(r, i, seed ^ ti as u64, ctx.thorough);
                for (si, spec) in specs.iter().enumerate() {
                    let kinds: &[Kind] = match (si + i as usize) % 3 {
                        0 => &[Kind::Date],
                        1 => &[Kind::Ts],
                        _ => &[Kind::Ora],
                    };
                    // time-bearing specs always go through Timestamp too
                    let extra = matches!(spec[0], 9 | 10 | 11 | 12 | 14 | 19 | 21) || (spec[0] == 20 && spec[3] == 3);
                    for &kind in kinds.iter().chain(if extra { [Kind::Ts].iter() } else { [].iter() }) {
                        st.evaluations += 1;
                        if special {
                            st.nontrivial_enum += 1;
                        }
                        if let Err(m) = check_default(kind, clock, spec) {
                            let mut iv = vec![kind.index() as i128, r.n as i128, tod as i128];
                            iv.extend(spec.iter().copied());
                            st.fail(i, Case::new(P, "default", iv, vec![]), m);
                            return;
                        }
                    }
                }
                st.evaluations += 1;
                if special {
                    st.nontrivial_enum += 1;
                }
                let t = ((i * 7919) % 86_400) as i64 * 1_000_000 + (i % 1_000_000) as i64;
                if let Err(m) = check_now(clock, t) {
                    st.fail(i, Case::new(P, "now", vec![r.n as i128, tod as i128, t as i128], vec![]), m);
                    return;
                }
            }
            // a leap second reported by the clock on this date
            {
                let (h, mi) = [(23u32, 59u32), (0, 0), (12, 30), (23, 0)][(i % 4) as usize];
                let us = [1_000_000u32, 1_500_000, 1_999_999][(i / 4 % 3) as usize];
                st.evaluations += 1;
                st.class("clock-in-a-leap-second");
                if let Err(m) = check_now_leap(r.n, h, mi, us) {
                    st.fail(i, Case::new(P, "now_leap", vec![r.n as i128, h as i128, mi as i128, us as i128], vec![]), m);
                    return;
                }
                if i + 40 >= c.len() as u64 || i < 40 {
                    // both range ends: every combination
                    for (h, mi) in [(23u32, 59u32), (0, 0), (12, 30), (23, 0)] {
                        for us in [1_000_000u32, 1_000_001, 1_500_000, 1_999_999] {
                            st.evaluations += 1;
                            if let Err(m) = check_now_leap(r.n, h, mi, us) {
                                st.fail(i, Case::new(P, "now_leap", vec![r.n as i128, h as i128, mi as i128, us as i128], vec![]), m);
                                return;
                            }
                        }
                    }
                }
            }
            if special {
                if r.d as u32 == month_len(r.y, r.m as u32) {
                    st.class("clock-at-month-end");
                }
                if r.m == 2 && r.d == 29 {
                    st.class("clock-on-29-february");
                }
                if r.y % 100 == 0 {
                    st.class("clock-in-century-end-year");
                }
                if r.y < 1000 {
                    st.class("clock-year-below-1000");
                }
                if r.y == 9999 {
                    st.class("clock-in-year-9999");
                }
            }
            let key = mix64(seed ^ mix64(i ^ 0x1818));
            if key < st.sample_threshold() && special {
                st.sample(key, || json!({"current_local_date": format!("{:04}-{:02}-{:02}", r.y, r.m, r.d), "examples": {"DD=31": c.lookup(r.y as i64, r.m as i64, 31).is_some(), "DDD=366": c.lookup_doy(r.y as i64, 366).is_some(), "YY=00 ->": r.y - r.y % 100, "Y=0 ->": r.y - r.y % 10}}));
            }
        }
    });
    st.merge(s);
    st.exhaustive_sections.push(format!("every possible current local date (all 3,652,059 days) x {} time(s) of day x partial pictures + now()/try_from(Time)", tods.len()));
    st.section("every_current_date", &mut mark);

    // omission grid: every time-part picture x every cut x time classes x date prefixes under 7 clocks
    let gclocks: Vec<i32> = vec![c.first, c.lookup(1600, 2, 29).unwrap(), c.lookup(1969, 12, 31).unwrap(), 0, c.lookup(2024, 2, 29).unwrap(), c.lookup(2026, 10, 2).unwrap(), c.last];
    let mut grid: Vec<Vec<i128>> = vec![];
    let mut times: Vec<i128> = vec![0, 1, 59, 60, 3599, 3600, 11 * 3600 + 59 * 60 + 59, 12 * 3600, 12 * 3600 + 1, 13 * 3600 + 5 * 60 + 9, 23 * 3600, 86_399];
    let mut sm = SplitMix(seed ^ 0x1819);
    for _ in 0..if ctx.thorough { 200 } else { 20 } {
        times.push(sm.below(86_400) as i128);
    }
    for (p, toks) in TIME_PICS.iter().enumerate() {
        for cut in 0..=toks.len() {
            for &t in &times {
                for pre in 0..3 {
                    grid.push(vec![19, p as i128, cut as i128, t, (t * 37 + 500) % 1000, pre]);
                }
            }
        }
    }
    let gref = &grid;
    let gc = &gclocks;
    let s = par_sweep(grid.len() as u64, 64, |range, st| {
        for k in range {
            let spec = &gref[k as usize];
            for (ci, &n) in gc.iter().enumerate() {
                let clock = Clock { n, tod: tref[ci % tref.len()] };
                for kind in [Kind::Ts, Kind::Ora, Kind::Date] {
                    st.evaluations += 1;
                    let cutn = spec[2] as usize;
                    if cutn < TIME_PICS[spec[1] as usize].len() {
                        st.nontrivial_enum += 1;
                        st.class("time-part-text-ends-early");
                    }
                    if let Err(m) = check_default(kind, clock, spec) {
                        let mut iv = vec![kind.index() as i128, n as i128, clock.tod as i128];
                        iv.extend(spec.iter().copied());
                        st.fail(k, Case::new(P, "default", iv, vec![]), m);
                        return;
                    }
                }
            }
        }
    });
    st.merge(s);
    st.exhaustive_sections.push(format!("omission grid: {} time-part pictures (both meridian/hour orders, permuted fields) x every cut position x {} times of day x 3 date prefixes x 7 clocks x 3 types", TIME_PICS.len(), times.len()));
    st.section("omission_grid", &mut mark);

    // complete pictures: independent of the clock
    let clocks: Vec<Clock> = [c.first, c.first + 58, c.lookup(1600, 2, 29).unwrap(), c.lookup(1999, 12, 31).unwrap(), 0, c.lookup(2024, 2, 29).unwrap(), c.lookup(9999, 1, 31).unwrap(), c.last - 1, c.last]
        .iter()
        .enumerate()
        .map(|(k, n)| Clock { n: *n, tod: tods[k % tods.len()] })
        .collect();
    let dates = pools::date_pool(seed, if ctx.thorough { 20_000 } else { 3000 });
    let cref = &clocks;
    let s = par_sweep(dates.len() as u64, 64, |range, st| {
        for k in range {
            let n = dates[k as usize];
            let r = c.row(n as i64).unwrap();
            let mon = MONTH_NAMES[r.m as usize - 1];
            let day = DAY_NAMES[r.wd as usize - 1];
            let t = pools::hms(23, 59, 58, 0);
            let cases: Vec<(Kind, String, String, i128)> = vec![
                (Kind::Date, "YYYY-MM-DD".into(), format!("{:04}-{:02}-{:02}", r.y, r.m, r.d), n),
                (Kind::Date, "YYYY DDD".into(), format!("{:04} {:03}", r.y, r.doy), n),
                (Kind::Date, "DAY, DD MONTH YYYY".into(), format!("{day}, {} {mon} {}", r.d, r.y), n),
                (Kind::Ts, "YYYY-MM-DD HH24:MI:SS".into(), format!("{:04}-{:02}-{:02} 23:59:58", r.y, r.m, r.d), n * US_PER_DAY + t),
                (Kind::Ts, "DD.MM.YYYY".into(), format!("{:02}.{:02}.{:04}", r.d, r.m, r.y), n * US_PER_DAY),
                (Kind::Ora, "YYYYMMDD HH:MI AM".into(), format!("{:04}{:02}{:02} 11:59 pm", r.y, r.m, r.d), n * US_PER_DAY + pools::hms(23, 59, 0, 0)),
                (Kind::Ora, "Mon DD YYYY".into(), format!("{} {:02} {:04}", &mon[..3], r.d, r.y), n * US_PER_DAY),
                (Kind::Date, "YYYY DDD DD".into(), format!("{:04} {:03} {:02}", r.y, r.doy, r.d), n),
                (Kind::Ts, "DD DDD YYYY".into(), format!("{} {} {}", r.d, r.doy, r.y), n * US_PER_DAY),
                (Kind::Date, "MM-DDD-YYYY".into(), format!("{:02}-{:03}-{:04}", r.m, r.doy, r.y), n),
                (Kind::Ts, "DY YYYY DDD HH24:MI:SS".into(), format!("{} {:04} {:03} 23:59:58", &day[..3], r.y, r.doy), n * US_PER_DAY + t),
                (Kind::Date, "YYYY DDD DAY".into(), format!("{:04} {:03} {day}", r.y, r.doy), n),
                (Kind::Ora, "YYYY-MM DDD D".into(), format!("{:04}-{:02} {:03} {}", r.y, r.m, r.doy, r.wd), n * US_PER_DAY),
                (Kind::Date, "D DD DDD YYYY".into(), format!("{} {:02} {:03} {:04}", r.wd, r.d, r.doy, r.y), n),
            ];
            for (kind, pic, text, want) in cases {
                st.evaluations += cref.len() as u64;
                st.fps.push(hash_bytes(hash_ints(18, &[n]), pic.as_bytes()));
                st.class("complete-picture-under-9-clocks");
                if let Err(m) = check_complete(kind, &pic, &text, want, cref) {
                    let mut iv = vec![kind.index() as i128, want];
                    for ck in cref.iter() {
                        iv.push(ck.n as i128);
                        iv.push(ck.tod as i128);
                    }
                    st.fail(k, Case::new(P, "complete", iv, vec![pic, text]), m);
                    return;
                }
            }
        }
    });
    st.merge(s);
    st.section("complete_pictures_clock_independent", &mut mark);
    let _ = Time::ZERO;

    let rep = Report {
        rule: format!("The injected clock (cargo feature verif-hooks, thread-local) ranges over ALL 3,652,059 possible current local dates x {} time(s) of day (thorough: midnight, 00:00:00.5, 12:34:56.789012, 23:59:59.999999 under every date; quick: one of those five classes incl. 00:00:00.000001 per date, rotating with the date). Under each clock: partial pictures \"\", DD (1, 28..31, month length +-), MM, MM-DD, MON DD, YYYY, YYYY-DD, DDD (incl. 365/366), Y / YY / YYY with value classes (all values for Y/YY in thorough) alone and with month/day, with a leading '+' and with a '-' (which denotes no date), the same partial pictures with a field that is present but outside its domain (month 0 / 13, day 0 / 32, day of year 0 / 367, year 0: no date, whatever the clock), a weekday token without any day field (the 1st of the resolved month, accepted with its own weekday and rejected with another), a fraction carrying out of 23:59:59 under pictures that take year / month from the clock, HH24:MI, HH:MI AM with empty text, SS, .FF, DD HH:MI PM, an omission grid (16 time-part pictures in several field orders, meridian before or after the 12-hour field or without any hour token, text ending after every token; also swept exhaustively under 7 clocks), rotated over Date / Timestamp / OracleDate; Date::now, Timestamp::now, OracleDate::now, Timestamp::try_from(Time), OracleDate::try_from(Time); the same constructors with the clock inside a leap second (second 59 + 1,000,000..1,999,999 us: an error or an in-range value within those two seconds). Every parse goes through T::parse, a fresh Formatter and a long-lived Formatter (compiled once per thread and picture, so it has parsed under many other current dates before). Once per run, before any worker thread starts, the five clock readers are also called WITHOUT the hook under a process time zone 13 hours east or west of UTC (whichever makes the local date differ from the UTC date at that moment): they must agree on the local date. Oracle: model defaults (year and month from the clock, day 1, time 0, 12 for an omitted 12-hour field, short years completed with the leading digits of the clock year) validated by the walked calendar (so DD=31 in a 30-day current month, DDD=366 in a common current year, a completed year 0 are errors). Complete pictures (14 shapes incl. weekday + day of year with and without month / day x date pool) must give the identical value under 9 different clocks incl. both range ends. Non-trivial = clock at a month end / year end / century-end year / 29 Feb / year < 1000 / year 9999; distinct by enumeration.", tods.len()),
        assumptions: vec!["the hook only replaces the value of chrono::Local::now().naive_local() at the six places the library reads it; with the feature off the code is the original".into()],
        exhaustive: true,
        extra: Default::default(),
    };
    (st, rep)
}
