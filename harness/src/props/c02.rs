//! C02 – every value produced by a safe operation lies in its type's documented range.

use super::{c08, c09};
use crate::adapter as ad;
use crate::engine::*;
use crate::model::cal::*;
use crate::model::text::*;
use crate::ops::*;
use crate::speller;
use crate::strat;
use proptest::prelude::*;
use serde_json::json;

const P: &str = "C02";

fn near_edge(v: &Val) -> bool {
    let (lo, hi) = strat::limits(v.kind);
    let unit = match v.kind {
        Kind::Date => 31,
        Kind::YM => 12,
        Kind::Time => US_PER_SEC,
        _ => US_PER_DAY,
    };
    (v.raw - lo).abs() <= unit || (v.raw - hi).abs() <= unit
}

/// Calls one operation on in-range operands; every returned value must be in range, and for
/// rows with an exact model the result must be Ok(exact) iff the exact value is in range.
pub fn judge_op(op: &Op, args: &[Arg]) -> Result<(bool, &'static str), String> {
    if (op.model)(args) != Model::None {
        return c08::judge_linear(op, args);
    }
    let got = guarded(|| (op.call)(args)).map_err(|p| format!("{}({}): {p}", op.name, describe_args(args)))?;
    let check = |v: &Val| -> Result<(), String> {
        if !ad::in_range(v) {
            return Err(format!("{}({}) returned {} {} which is outside the documented range of its type", op.name, describe_args(args), v.kind.name(), v.raw));
        }
        Ok(())
    };
    // month arithmetic: exact model from C09 (error, not clamp)
    if op.name.ends_with("add_interval_ym") || op.name.ends_with("sub_interval_ym") {
        if let (Arg::V(x), Arg::V(k)) = (&args[0], &args[1]) {
            if k.kind == Kind::YM && x.kind != Kind::YM {
                let (n, t) = match x.kind {
                    Kind::Date => (x.raw as i32, 0i64),
                    _ => (x.raw.div_euclid(US_PER_DAY) as i32, x.raw.rem_euclid(US_PER_DAY) as i64),
                };
                let eff = if op.name.ends_with("sub_interval_ym") { -(k.raw as i64) } else { k.raw as i64 };
                let want = c09::model_add_months(n, t, eff);
                return match (&got, want) {
                    (Ok(Out::Val(v)), Some(w)) if v.raw == w => {
                        check(v)?;
                        Ok((near_edge(v), "month-arithmetic-ok"))
                    }
                    (Err(_), None) => Ok((true, "month-arithmetic-error")),
                    (g, w) => Err(format!("{}({}) = {g:?}, month model gives {w:?} (an out-of-range or non-existent target must be an error, never a clamped value)", op.name, describe_args(args))),
                };
            }
        }
    }
    match got {
        Ok(Out::Val(v)) => {
            check(&v)?;
            Ok((near_edge(&v), "value-in-range"))
        }
        Ok(Out::Pair(a, b)) => {
            check(&a)?;
            check(&b)?;
            Ok((near_edge(&a), "pair-in-range"))
        }
        Ok(Out::F64(_)) | Ok(Out::I32(_)) | Ok(Out::Bool(_)) => Ok((false, "scalar")),
        Err(_) => Ok((true, "error")),
    }
}

/// Interval texts at the range limits with the fields written in several orders (limit years /
/// days x every month / boundary clock fields incl. a carrying fraction x sign), plus the 12-hour
/// respelling of the last second of the day with a carrying fraction. Shared with C03 (no panic).
pub fn limit_texts() -> Vec<(Kind, String, String)> {
    let mut texts: Vec<(Kind, String, String)> = vec![];
    for y in [177_999_999i64, 178_000_000, 178_000_001] {
        for m in 0..=12 {
            for sign in ["", "-", "+"] {
                texts.push((Kind::YM, "YYYY-MM".into(), format!("{sign}{y}-{m:02}")));
                texts.push((Kind::YM, "MM-YYYY".into(), format!("{m:02}-{sign}{y}")));
                texts.push((Kind::YM, "MM YYYY".into(), format!("{sign}{m:02} {y}")));
                texts.push((Kind::YM, "MM/YYYY".into(), format!("{m}/{sign}{y}")));
            }
        }
    }
    for d in [99_999_999i64, 100_000_000, 100_000_001] {
        for (h, mi, se, f) in [(0, 0, 0, "000000"), (0, 0, 0, "000001"), (0, 0, 1, "000000"), (0, 1, 0, "000000"), (1, 0, 0, "000000"), (23, 59, 59, "999999"), (0, 0, 0, "9999995")] {
            for sign in ["", "-", "+"] {
                texts.push((Kind::DT, "DD HH24:MI:SS.FF".into(), format!("{sign}{d} {h:02}:{mi:02}:{se:02}.{f}")));
                texts.push((Kind::DT, "HH24:MI:SS.FF DD".into(), format!("{h:02}:{mi:02}:{se:02}.{f} {sign}{d}")));
                texts.push((Kind::DT, "FF SS MI HH24 DD".into(), format!("{f} {se} {mi} {h} {sign}{d}")));
                texts.push((Kind::DT, "SS.FF DD HH24:MI".into(), format!("{sign}{se:02}.{f} {d} {h:02}:{mi:02}")));
            }
        }
    }
    for f in ["9999995", "99999995", "999999995", "9999994", "999999"] {
        for (pic, text) in [
            ("HH:MI:SS.FF PM", format!("11:59:59.{f} PM")),
            ("PM HH12:MI:SS.FF", format!("pm 11:59:59.{f}")),
            ("HH:MI:SS.FF A.M.", format!("11:59:59.{f} a.m.")),
            ("HH24:MI:SS.FF", format!("23:59:59.{f}")),
        ] {
            texts.push((Kind::Time, pic.into(), text.clone()));
            texts.push((Kind::Ts, format!("YYYY-MM-DD {pic}"), format!("9999-12-31 {text}")));
            texts.push((Kind::Ts, format!("{pic} DD.MM.YYYY"), format!("{text} 31.12.9999")));
            texts.push((Kind::Ts, format!("YYYY-MM-DD {pic}"), format!("1969-12-31 {text}")));
        }
    }
    texts
}

/// A parse must yield Err or an in-range value, whatever the text.
pub fn check_parse_range(kind: Kind, pic: &str, text: &str) -> Result<bool, String> {
    let r = ad::parse_type(kind, text, pic).map_err(|p| format!("{}::parse({text:?}, {pic:?}): {p}", kind.name()))?;
    match r {
        Ok(v) => {
            if !ad::in_range(&v) {
                return Err(format!("{}::parse({text:?}, {pic:?}) = Ok({}) outside the documented range", kind.name(), v.raw));
            }
            Ok(true)
        }
        Err(_) => Ok(false),
    }
}

/// The clock reads a date OUTSIDE the supported range (year 0 or earlier, 10000 or later): the
/// clock-reading constructors and partial-picture parses must fail or return an in-range value.
pub fn check_now_outside(y: i32, mo: u32, d: u32, tod: i64) -> Result<(), String> {
    use sqldatetime::{Date, OracleDate, Timestamp};
    let (h, mi, s, us) = ((tod / 3_600_000_000) as u32, (tod / 60_000_000 % 60) as u32, (tod / 1_000_000 % 60) as u32, (tod % 1_000_000) as u32);
    ad::clock_set(y, mo, d, h, mi, s, us);
    let out = guarded(|| -> Result<(), String> {
        let reads0 = ad::clock_reads();
        if let Ok(x) = Date::now() {
            if !date_in_range(x.days() as i128) {
                return Err(format!("Date::now() = day {} outside 0001-01-01..9999-12-31", x.days()));
            }
        }
        if let Ok(x) = Timestamp::now() {
            if !ts_in_range(x.usecs() as i128) {
                return Err(format!("Timestamp::now() = {} outside the timestamp range", x.usecs()));
            }
        }
        if let Ok(x) = OracleDate::now() {
            if !ts_in_range(x.usecs() as i128) || x.usecs() % 1_000_000 != 0 {
                return Err(format!("OracleDate::now() = {} outside the range / not a whole second", x.usecs()));
            }
        }
        for t in [0i64, 1, 43_200_000_000, 86_399_999_999] {
            if let Ok(x) = Timestamp::try_from(ad::time(t)) {
                if !ts_in_range(x.usecs() as i128) {
                    return Err(format!("Timestamp::try_from(Time {t}) = {} outside the timestamp range", x.usecs()));
                }
            }
            if let Ok(x) = OracleDate::try_from(ad::time(t)) {
                if !ts_in_range(x.usecs() as i128) || x.usecs() % 1_000_000 != 0 {
                    return Err(format!("OracleDate::try_from(Time {t}) = {} outside the range / not a whole second", x.usecs()));
                }
            }
        }
        if ad::clock_reads() <= reads0 {
            return Err("harness: the clock hook was not consulted".into());
        }
        // partial pictures take the year / month from this clock
        for (text, pic) in [("", ""), ("15", "DD"), ("02-29", "MM-DD"), ("12", "MM"), ("10:20:30", "HH24:MI:SS"), ("7", "Y"), ("07", "YY"), ("007", "YYY"), ("366", "DDD"), ("Mon", "DY")] {
            if let Ok(x) = Date::parse(text, pic) {
                if !date_in_range(x.days() as i128) {
                    return Err(format!("Date::parse({text:?}, {pic:?}) = day {} outside the range", x.days()));
                }
            }
            if let Ok(x) = Timestamp::parse(text, pic) {
                if !ts_in_range(x.usecs() as i128) {
                    return Err(format!("Timestamp::parse({text:?}, {pic:?}) = {} outside the range", x.usecs()));
                }
            }
            if let Ok(x) = OracleDate::parse(text, pic) {
                if !ts_in_range(x.usecs() as i128) || x.usecs() % 1_000_000 != 0 {
                    return Err(format!("OracleDate::parse({text:?}, {pic:?}) = {} outside the range / not a whole second", x.usecs()));
                }
            }
        }
        Ok(())
    })
    .unwrap_or_else(|p| Err(p));
    ad::clock_clear();
    out.map_err(|m| format!("with the clock at year {y}, {mo:02}-{d:02} +{tod} us (outside the supported range): {m}"))
}

pub fn eval(case: &Case) -> Verdict {
    let r: Result<(), String> = match case.kind.as_str() {
        "op" | "linear" => {
            let ops = all_ops();
            match ops.iter().find(|o| o.name == case.s[0]) {
                None => Err(format!("unknown op {}", case.s[0])),
                Some(op) => {
                    let args: Vec<Arg> = op.args.iter().zip(case.i.iter()).map(|(k, x)| arg_from_i128(*k, *x)).collect();
                    if !args_valid(&args) {
                        Err("replay case has an out-of-range operand".into())
                    } else {
                        judge_op(op, &args).map(|_| ())
                    }
                }
            }
        }
        "parse" => check_parse_range(Kind::from_index(case.i[0] as usize), &case.s[0], &case.s[1]).map(|_| ()),
        "constant" => check_constant(case.i[0] as usize),
        "scale_range" => check_scale_range(Kind::from_index(case.i[0] as usize), case.i[1], f64::from_bits(case.i[2] as u64), case.i[3] != 0),
        "now_outside" => check_now_outside(case.i[0] as i32, case.i[1] as u32, case.i[2] as u32, case.i[3] as i64),
        "now_leap" => super::c18::check_now_leap(case.i[0] as i32, case.i[1] as u32, case.i[2] as u32, case.i[3] as u32),
        "decode_int" => super::c15::check_decode_int(Kind::from_index(case.i[0] as usize), case.i[1], case.i[2] as usize).map(|_| ()),
        "ts_add_days" => c08::check_add_days(case.i[0], i2f(case.i[1]), case.i[2] != 0).map(|_| ()),
        "ora_add_days" => super::c16::check_add_days(case.i[0] as u8, case.i[1], i2f(case.i[2])).map(|_| ()),
        k => Err(format!("unknown case kind {k}")),
    };
    match r {
        Ok(()) => Verdict::Pass,
        Err(m) => Verdict::Fail(m),
    }
}

/// `x * k` / `x / k` for an interval or a time of day: an error, or a value inside the range of
/// the result type (year-month interval for a year-month interval, day-time interval otherwise).
pub fn check_scale_range(kind: Kind, x: i128, k: f64, div: bool) -> Result<(), String> {
    let r: Result<Result<(Kind, i128), sqldatetime::Error>, String> = guarded(|| match kind {
        Kind::YM => {
            let v = ad::ym(x as i32);
            (if div { v.div_f64(k) } else { v.mul_f64(k) }).map(|y| (Kind::YM, y.months() as i128))
        }
        Kind::DT => {
            let v = ad::dt(x as i64);
            (if div { v.div_f64(k) } else { v.mul_f64(k) }).map(|y| (Kind::DT, y.usecs() as i128))
        }
        _ => {
            let v = ad::time(x as i64);
            (if div { v.div_f64(k) } else { v.mul_f64(k) }).map(|y| (Kind::DT, y.usecs() as i128))
        }
    });
    match r.map_err(|p| format!("{} {x} {} {k:e}: {p}", kind.name(), if div { "/" } else { "*" }))? {
        Err(_) => Ok(()),
        Ok((rk, v)) => {
            if ad::in_range(&Val::new(rk, v)) {
                Ok(())
            } else {
                Err(format!("{}({x}).{}({k:e} [bits {:#x}]) = Ok({v}) outside the documented range of {}", kind.name(), if div { "div_f64" } else { "mul_f64" }, k.to_bits(), rk.name()))
            }
        }
    }
}

/// Public constant number `idx`: equals the documented limit / zero and lies inside the range.
pub fn check_constant(idx: usize) -> Result<(), String> {
    use sqldatetime::{Date, IntervalDT, IntervalYM, OracleDate, Time, Timestamp};
    let consts: Vec<(&str, Kind, i128, i128)> = vec![
        ("Date::MIN", Kind::Date, Date::MIN.days() as i128, strat::limits(Kind::Date).0),
        ("Date::MAX", Kind::Date, Date::MAX.days() as i128, strat::limits(Kind::Date).1),
        ("Time::ZERO", Kind::Time, Time::ZERO.usecs() as i128, 0),
        ("Time::MAX", Kind::Time, Time::MAX.usecs() as i128, US_PER_DAY - 1),
        ("Timestamp::MIN", Kind::Ts, Timestamp::MIN.usecs() as i128, ts_min()),
        ("Timestamp::MAX", Kind::Ts, Timestamp::MAX.usecs() as i128, ts_max()),
        ("OracleDate::MIN", Kind::Ora, OracleDate::MIN.usecs() as i128, ts_min()),
        ("OracleDate::MAX", Kind::Ora, OracleDate::MAX.usecs() as i128, ora_max()),
        ("IntervalYM::MIN", Kind::YM, IntervalYM::MIN.months() as i128, -YM_MAX),
        ("IntervalYM::MAX", Kind::YM, IntervalYM::MAX.months() as i128, YM_MAX),
        ("IntervalYM::ZERO", Kind::YM, IntervalYM::ZERO.months() as i128, 0),
        ("IntervalDT::MIN", Kind::DT, IntervalDT::MIN.usecs() as i128, -DT_MAX),
        ("IntervalDT::MAX", Kind::DT, IntervalDT::MAX.usecs() as i128, DT_MAX),
        ("IntervalDT::ZERO", Kind::DT, IntervalDT::ZERO.usecs() as i128, 0),
    ];
    let (name, kind, got, want) = consts[idx % consts.len()];
    if got != want || !ad::in_range(&Val::new(kind, got)) {
        return Err(format!("{name} has the raw count {got}, the documented limit is {want}"));
    }
    Ok(())
}

pub fn thin(v: Vec<Arg>, max: usize) -> Vec<Arg> {
    if v.len() <= max {
        return v;
    }
    let step = v.len() as f64 / max as f64;
    (0..max).map(|k| v[(k as f64 * step) as usize]).collect()
}

pub fn run(ctx: &Ctx) -> (Stats, Report) {
    let mut st = Stats::new();
    let mut mark = (0, 0);
    run_replays(P, &mut st, &eval);
    st.section("replays", &mut mark);
    let seed = ctx.seed;
    let ops = all_ops();
    let budget: u64 = if ctx.thorough { 120_000_000 } else { 8_000_000 };

    for (oi, op) in ops.iter().enumerate() {
        let mut pools_: Vec<Vec<Arg>> = op.args.iter().enumerate().map(|(k, ak)| arg_pool(*ak, seed, if k == 0 { PoolSize::Full } else { PoolSize::Small })).collect();
        // keep the cross product within the budget by thinning the later operands
        let mut total: u64 = pools_.iter().map(|p| p.len() as u64).product();
        let mut cap = 64usize;
        while total > budget && cap >= 6 {
            for p in pools_.iter_mut().skip(1) {
                *p = thin(std::mem::take(p), cap);
            }
            total = pools_.iter().map(|p| p.len() as u64).product();
            cap = cap * 2 / 3;
        }
        if total > budget {
            pools_[0] = thin(std::mem::take(&mut pools_[0]), (budget / (total / pools_[0].len() as u64).max(1)).max(8) as usize);
            total = pools_.iter().map(|p| p.len() as u64).product();
        }
        let s = par_sweep(total, 4096, |range, st| {
            for idx in range {
                let mut rem = idx;
                let mut args = Vec::with_capacity(pools_.len());
                for p in pools_.iter().rev() {
                    args.push(p[(rem % p.len() as u64) as usize]);
                    rem /= p.len() as u64;
                }
                args.reverse();
                st.evaluations += 1;
                match judge_op(op, &args) {
                    Ok((nt, class)) => {
                        st.class(class);
                        if nt {
                            st.fps.push(hash_ints(oi as u64 + 0x200, &args.iter().map(arg_to_i128).collect::<Vec<_>>()));
                            let key = mix64(seed ^ mix64(idx ^ (oi as u64) << 44));
                            if key < st.sample_threshold() {
                                st.sample(key, || json!({"op": op.name, "args": describe_args(&args), "class": class}));
                            }
                        }
                    }
                    Err(m) => {
                        st.fail(idx, Case::new(P, "op", args.iter().map(arg_to_i128).collect(), vec![op.name.to_string()]), m);
                        return;
                    }
                }
            }
        });
        st.merge(s);
    }
    st.class_n("operations-in-table", ops.len() as u64);
    // fractional-day rows: offsets that are the exact complement to a range end (and its bit
    // neighbours), for boundary and interior receivers: the result must be Err or in range
    {
        let recv = crate::pools::ts_pool(seed, if ctx.thorough { 20_000 } else { 3000 });
        let rref = &recv;
        let s = par_sweep(recv.len() as u64, 64, |range, st| {
            for k in range {
                let x = rref[k as usize];
                for lim in [ts_min(), ts_max(), ora_max()] {
                    let d = (lim - x) as f64 / US_PER_DAY as f64;
                    for nb in -3i64..=3 {
                        let f = f64::from_bits((d.to_bits() as i64 + nb) as u64);
                        for sub in [false, true] {
                            let ff = if sub { -f } else { f };
                            st.evaluations += 2;
                            st.fps.push(hash_ints(0x2c0, &[x, f2i(ff), sub as i128]));
                            st.class("range-complement-day-offset");
                            if let Err(m) = c08::check_add_days(x, ff, sub) {
                                st.fail(k, Case::new(P, "ts_add_days", vec![x, f2i(ff), sub as i128], vec![]), m);
                                return;
                            }
                            let which = if sub { 3u8 } else { 2 };
                            if let Err(m) = super::c16::check_add_days(which, x, ff) {
                                st.fail(k, Case::new(P, "ora_add_days", vec![which as i128, x, f2i(ff)], vec![]), m);
                                return;
                            }
                        }
                    }
                }
            }
        });
        st.merge(s);
    }
    st.section("operation_table_pool_cross_products", &mut mark);

    // random operands (proptest) for unary / binary rows
    let cases = if ctx.thorough { 2_000_000 } else { 60_000 };
    for (oi, op) in ops.iter().enumerate() {
        if op.args.len() > 2 {
            continue;
        }
        let strat_for = |k: ArgKind| -> BoxedStrategy<i128> {
            match k {
                ArgKind::K(kind) => strat::raw(kind),
                ArgKind::I32 => strat::any_i32().prop_map(|x| x as i128).boxed(),
                ArgKind::I64 => any::<i64>().prop_map(|x| x as i128).boxed(),
                ArgKind::U32 => any::<u32>().prop_map(|x| x as i128).boxed(),
                ArgKind::F64 => strat::any_f64().prop_map(f2i).boxed(),
            }
        };
        let a0 = op.args[0];
        let a1 = op.args.get(1).copied();
        let s = pt_run(
            &format!("C02/{}", op.name),
            seed,
            cases / THREADS as u32 + 1,
            THREADS,
            || (strat_for(a0), match a1 { Some(k) => strat_for(k), None => Just(0i128).boxed() }),
            |(x, y): &(i128, i128), st: &mut Stats| {
                let mut args = vec![arg_from_i128(a0, *x)];
                if let Some(k) = a1 {
                    args.push(arg_from_i128(k, *y));
                }
                st.evaluations += 1;
                let (nt, class) = judge_op(op, &args)?;
                st.class(class);
                if nt {
                    st.fps.push(hash_ints(oi as u64 + 0x200, &[*x, *y]));
                }
                Ok(())
            },
            |(x, y): &(i128, i128)| {
                let mut i = vec![*x];
                if a1.is_some() {
                    i.push(*y);
                }
                Case::new(P, "op", i, vec![op.name.to_string()])
            },
        );
        st.merge(s);
    }
    st.section("operation_table_random_operands", &mut mark);

    // parse: speller texts (in range, at the edge, carry past the edge) must give Err or an
    // in-range value
    let edge_texts: Vec<(Kind, &str, &str)> = vec![
        (Kind::Ts, "YYYY-MM-DD HH24:MI:SS.FF", "9999-12-31 23:59:59.9999995"),
        (Kind::Ts, "YYYY-MM-DD HH24:MI:SS.FF", "9999-12-31 23:59:59.999999"),
        (Kind::Ts, "YYYY-MM-DD HH24:MI:SS.FF", "0001-01-01 00:00:00.0000004"),
        (Kind::Time, "HH24:MI:SS.FF", "23:59:59.9999995"),
        (Kind::Time, "HH24:MI:SS.FF", "23:59:59.999999"),
        (Kind::Ora, "YYYY-MM-DD HH24:MI:SS", "9999-12-31 23:59:59"),
        (Kind::Date, "YYYY-MM-DD", "9999-12-31"),
        (Kind::Date, "YYYY-MM-DD", "0001-01-01"),
        (Kind::Date, "YYYY-MM-DD", "0000-12-31"),
        (Kind::Date, "YYYY-MM-DD", "10000-01-01"),
        (Kind::YM, "YYYY-MM", "178000000-00"),
        (Kind::YM, "YYYY-MM", "-178000000-00"),
        (Kind::YM, "YYYY-MM", "178000000-01"),
        (Kind::YM, "YYYY-MM", "-178000000-11"),
        (Kind::YM, "YYYY-MM", "999999999-11"),
        (Kind::DT, "DD HH24:MI:SS.FF", "100000000 00:00:00.000000"),
        (Kind::DT, "DD HH24:MI:SS.FF", "-100000000 00:00:00.000000"),
        (Kind::DT, "DD HH24:MI:SS.FF", "100000000 00:00:00.000001"),
        (Kind::DT, "DD HH24:MI:SS.FF", "99999999 23:59:59.9999995"),
        (Kind::DT, "DD HH24:MI:SS.FF", "100000000 00:00:00.9999995"),
        (Kind::DT, "DD HH24:MI:SS.FF", "-100000000 00:00:00.9999995"),
        (Kind::DT, "DD HH24:MI:SS.FF8", "100000000 00:00:00.99999995"),
        (Kind::DT, "DD HH24:MI:SS.FF9", "-100000000 00:00:00.999999995"),
        (Kind::DT, "DD HH24:MI:SS.FF", "100000000 00:00:00.0000004"),
        (Kind::Ts, "YYYY-MM-DD HH24:MI:SS.FF9", "9999-12-31 23:59:59.999999500"),
        (Kind::Ts, "YYYY-MM-DD HH24:MI:SS.FF7", "9999-12-31 23:59:59.9999994"),
        (Kind::Time, "HH24:MI:SS.FF8", "23:59:59.99999995"),
        (Kind::DT, "DD HH24:MI:SS.FF", "-99999999 23:59:59.9999996"),
        (Kind::DT, "DD HH24:MI:SS.FF", "999999999 23:59:59.999999"),
    ];
    for (k, (kind, pic, text)) in edge_texts.iter().enumerate() {
        st.evaluations += 1;
        st.fps.push(hash_bytes(0x2a, text.as_bytes()));
        st.class("parse-edge-text");
        if let Err(m) = check_parse_range(*kind, pic, text) {
            st.fail(k as u64, Case::new(P, "parse", vec![kind.index() as i128], vec![pic.to_string(), text.to_string()]), m);
        }
    }
    // interval texts at the limits with the fields written in every order (the gate must not
    // depend on which field the parser meets first): limit years / days x every month / boundary
    // clock fields x sign
    {
        let texts = limit_texts();
        for (k, (kind, pic, text)) in texts.iter().enumerate() {
            st.evaluations += 1;
            st.nontrivial_enum += 1;
            st.class("interval-limit-text-in-another-field-order");
            if let Err(m) = check_parse_range(*kind, pic, text) {
                st.fail(k as u64, Case::new(P, "parse", vec![kind.index() as i128], vec![pic.to_string(), text.to_string()]), m);
            }
        }
    }
    for kind in KINDS {
        let s = pt_run(
            &format!("C02/parse/{}", kind.name()),
            seed,
            (if ctx.thorough { 5_000_000 } else { 240_000 }) / THREADS as u32,
            THREADS,
            || (strat::raw(kind), proptest::collection::vec(any::<u32>(), 96), 0u32..=speller::PERTURBS.len() as u32),
            |(raw, choices, neg): &(i128, Vec<u32>, u32), st: &mut Stats| {
                let b = speller::build(kind, *raw, choices, *neg);
                st.evaluations += 1;
                let ok = check_parse_range(kind, &b.picture, &b.text)?;
                st.class(if ok { "parse-ok-in-range" } else { "parse-error" });
                if near_edge(&Val::new(kind, *raw)) || !ok {
                    st.fps.push(hash_bytes(hash_bytes(kind.index() as u64, b.picture.as_bytes()), b.text.as_bytes()));
                }
                Ok(())
            },
            |(raw, choices, neg): &(i128, Vec<u32>, u32)| {
                let b = speller::build(kind, *raw, choices, *neg);
                Case::new(P, "parse", vec![kind.index() as i128], vec![b.picture, b.text])
            },
        );
        st.merge(s);
    }
    st.section("parse_results_in_range", &mut mark);

    // values produced by Deserialize from integers of every width: in range, never a wrapped image
    // (same judgement as C15's integer payloads, on a smaller structured set)
    for kind in KINDS {
        let (lo, hi) = strat::limits(kind);
        let mut payloads: Vec<i128> = vec![];
        for base in [0i128, lo, hi, 19_000, 14, -1] {
            for k in [8u32, 16, 32, 64] {
                for m in [-1i128, 1, 2] {
                    payloads.push(base + m * (1i128 << k));
                }
            }
            payloads.extend([base - 1, base, base + 1]);
        }
        payloads.extend([i64::MIN as i128, i64::MAX as i128, u64::MAX as i128, u64::MAX as i128 - 5, i32::MIN as i128, u32::MAX as i128]);
        for &x in &payloads {
            for w in 0..super::c15::INT_WIDTHS.len() {
                st.evaluations += 1;
                st.nontrivial_enum += 1;
                match super::c15::check_decode_int(kind, x, w) {
                    Ok(true) => st.class("deserialized-integer-accepted-in-range"),
                    Ok(false) => st.class("deserialized-integer-rejected"),
                    Err(m) => st.fail(0, Case::new(P, "decode_int", vec![kind.index() as i128, x, w as i128], vec![]), m),
                }
            }
        }
    }
    st.section("deserialized_integers", &mut mark);

    // the clock-reading constructors at both ends of the range and on boundary dates, with the
    // clock on ordinary instants (decided in C18) and inside a leap second: Err or in range
    {
        let c = cal();
        let mut days: Vec<i32> = crate::pools::date_edges().into_iter().map(|d| d as i32).collect();
        days.extend([c.first, c.first + 1, c.last - 1, c.last]);
        for n in days {
            for (h, mi) in [(23u32, 59u32), (0, 0), (12, 30)] {
                for us in [1_000_000u32, 1_500_000, 1_999_999] {
                    st.evaluations += 1;
                    st.nontrivial_enum += 1;
                    st.class("clock-constructor-in-a-leap-second");
                    if let Err(m) = super::c18::check_now_leap(n, h, mi, us) {
                        st.fail(0, Case::new(P, "now_leap", vec![n as i128, h as i128, mi as i128, us as i128], vec![]), m);
                    }
                }
            }
        }
    }
    // ... and with the clock outside the supported range altogether
    for y in [0i32, -1, -4, -400, -4713, -9999, -262_142, 10_000, 10_001, 10_400, 99_999, 262_141] {
        for (mo, d) in [(1u32, 1u32), (12, 31), (2, 28), (2, 29), (6, 15)] {
            for tod in [0i64, 1, 43_200_000_000, 86_399_999_999] {
                st.evaluations += 1;
                st.nontrivial_enum += 1;
                st.class("clock-outside-the-supported-range");
                if let Err(m) = check_now_outside(y, mo, d, tod) {
                    st.fail(0, Case::new(P, "now_outside", vec![y as i128, mo as i128, d as i128, tod as i128], vec![]), m);
                }
            }
        }
    }
    st.section("clock_constructors_leap_second", &mut mark);

    // the public constants are values handed out by the library too: each must be the documented
    // limit (MIN / MAX) or zero, hence inside the documented range
    for idx in 0..14 {
        st.evaluations += 1;
        st.nontrivial_enum += 1;
        st.class("public-constant");
        if let Err(m) = check_constant(idx) {
            st.fail(0, Case::new(P, "constant", vec![idx as i128], vec![]), m);
        }
    }
    st.section("public_constants", &mut mark);

    // scaling at the limits: every pool interval x factors tuned to land just inside / outside the
    // range (limit / x, (limit + 1) / x and their bit neighbours, both signs, mul and div): whatever is
    // returned must be inside the range
    for which in [0u8, 1, 2] {
        let kind = [Kind::YM, Kind::DT, Kind::Time][which as usize];
        let xs: Vec<i128> = match which {
            0 => crate::pools::ym_pool(seed, if ctx.thorough { 1200 } else { 250 }),
            1 => crate::pools::dt_pool(seed, if ctx.thorough { 1200 } else { 250 }),
            _ => crate::pools::time_pool(seed, if ctx.thorough { 900 } else { 150 }),
        };
        let lim = if which == 0 { YM_MAX } else { DT_MAX };
        let xref = &xs;
        let s = par_sweep(xs.len() as u64, 16, |range, st| {
            for xi in range {
                let x = xref[xi as usize];
                let mut fs = strat::edge_seeking(x, lim);
                fs.extend(strat::edge_seeking(x, lim + 1));
                fs.extend(strat::edge_seeking(x, lim - 1));
                for f in fs {
                    for div in [false, true] {
                        st.evaluations += 1;
                        st.nontrivial_enum += 1;
                        if let Err(m) = check_scale_range(kind, x, f, div) {
                            st.fail(xi, Case::new(P, "scale_range", vec![kind.index() as i128, x, f.to_bits() as i128, div as i128], vec![]), m);
                            return;
                        }
                    }
                }
            }
        });
        st.merge(s);
    }
    st.section("scaling_at_the_limits", &mut mark);

    let rep = Report {
        rule: format!("Operation table of {} safe public functions (constructors from fields and raw counts, conversions, the whole add/sub family, negation, mul/div by f64, 12 trunc + 12 round on three types, last_day_of_month, extract, Oracle-style operations) x cross products of boundary+seeded operand pools (first operand full pool, later operands small pools / extreme scalars incl. i32::MIN, u32::MAX, NaN, infinities), plus proptest-generated operands per unary/binary row. Oracle: every returned value (also each half of an extracted pair) satisfies the range predicate of its type (whole seconds for the Oracle-style date); rows with an exact integer model must return Ok(exact) iff the exact value is in range (no wrap, no clamp); month arithmetic must match the month model or fail. Parse: speller-built texts at, near and past the range edges, and interval texts at the limits with their fields in every order, must give Err or an in-range value. Deserialize: integers of every width (i8..u128, via serde's de::value deserializers) at the limits and shifted by multiples of 2^8..2^64 must give Err or exactly the in-range value they denote. Scaling: every pool interval x factors tuned to the range limit (limit / x, (limit +- 1) / x, bit neighbours, both signs, mul and div) must give Err or an in-range value. The public MIN / MAX / ZERO constants of all six types equal the documented limits. Clock: now() / try_from(Time) with the injected clock inside a leap second on boundary dates and both range ends must give Err or an in-range value; so must they, and parses of partial pictures, with the injected clock outside the supported range altogether (years 0, -1, ... -262142, 10000 ... 262141). Non-trivial = result within one unit period of a range edge, or an error outcome; distinct by (row, operands).", ops.len()),
        assumptions: vec!["operands are in-range values (built through the checked constructors); scalar arguments are unrestricted".into()],
        exhaustive: false,
        extra: Default::default(),
    };
    (st, rep)
}
