//! One module per property. Each exposes `run(&Ctx) -> (Stats, Report)` (generation + judging)
//! and `eval(&Case) -> Verdict` (judging one stored case; used by replays).

use crate::engine::*;

pub mod c01;
pub mod c02;
pub mod c03;
pub mod c04;
pub mod c05;
pub mod c06;
pub mod c07;
pub mod c08;
pub mod c09;
pub mod c10;
pub mod c11;
pub mod c12;
pub mod c13;
pub mod c14;
pub mod c15;
pub mod c16;
pub mod c17;
pub mod c18;
pub mod c19;

pub struct Prop {
    pub id: &'static str,
    pub run: fn(&Ctx) -> (Stats, Report),
    pub eval: fn(&Case) -> Verdict,
}

pub const PROPS: &[Prop] = &[
    Prop { id: "C01", run: c01::run, eval: c01::eval },
    Prop { id: "C02", run: c02::run, eval: c02::eval },
    Prop { id: "C03", run: c03::run, eval: c03::eval },
    Prop { id: "C04", run: c04::run, eval: c04::eval },
    Prop { id: "C05", run: c05::run, eval: c05::eval },
    Prop { id: "C06", run: c06::run, eval: c06::eval },
    Prop { id: "C07", run: c07::run, eval: c07::eval },
    Prop { id: "C08", run: c08::run, eval: c08::eval },
    Prop { id: "C09", run: c09::run, eval: c09::eval },
    Prop { id: "C10", run: c10::run, eval: c10::eval },
    Prop { id: "C11", run: c11::run, eval: c11::eval },
    Prop { id: "C12", run: c12::run, eval: c12::eval },
    Prop { id: "C13", run: c13::run, eval: c13::eval },
    Prop { id: "C14", run: c14::run, eval: c14::eval },
    Prop { id: "C15", run: c15::run, eval: c15::eval },
    Prop { id: "C16", run: c16::run, eval: c16::eval },
    Prop { id: "C17", run: c17::run, eval: c17::eval },
    Prop { id: "C18", run: c18::run, eval: c18::eval },
    Prop { id: "C19", run: c19::run, eval: c19::eval },
];

pub fn find(id: &str) -> Option<&'static Prop> {
    PROPS.iter().find(|p| p.id == id)
}

/// `sqldt-verif replay <file>`: JSON case files and raw libFuzzer artifacts.
pub fn replay_file(path: &str, txt: &str, findings: &[Finding]) -> i32 {
    let v: serde_json::Value = match serde_json::from_str(txt) {
        Ok(v) => v,
        Err(e) => {
            eprintln!("{path}: not a JSON case file: {e}");
            return 2;
        }
    };
    let case = match Case::from_json(&v) {
        Ok(c) => c,
        Err(e) => {
            eprintln!("{path}: malformed case: {e}");
            return 2;
        }
    };
    let Some(p) = find(&case.prop) else {
        eprintln!("{path}: unknown property {}", case.prop);
        return 2;
    };
    let verdict = match guarded(|| (p.eval)(&case)) {
        Ok(v) => v,
        Err(m) => {
            eprintln!("harness failure while replaying (not a violation): {m}");
            return 2;
        }
    };
    match verdict {
        Verdict::Pass => {
            println!("replay {path}: property {} holds on this case (profile {})", case.prop, profile_name());
            0
        }
        Verdict::Known(id) => {
            if is_listed_known(findings, id) {
                let what = findings.iter().find(|f| f.id == id).map(|f| f.what.clone()).unwrap_or_default();
                println!("KNOWN-FINDING: property={} {} [{}]", case.prop, what, id);
                0
            } else {
                println!("VIOLATION property={} replay={}", case.prop, path);
                println!("  detail: matches signature {id}, not listed as known");
                1
            }
        }
        Verdict::Fail(m) => {
            println!("VIOLATION property={} replay={}", case.prop, path);
            println!("  detail: {m}");
            1
        }
    }
}
