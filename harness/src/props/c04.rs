//! C04 – formatting renders every field exactly as the picture specifies.

use crate::adapter::{self as ad, FmtOut, LibVal};
use crate::engine::*;
use crate::gen;
use crate::model::cal::*;
use crate::model::text::*;
use crate::pools;
use crate::strat;
use proptest::prelude::*;
use serde_json::json;
use sqldatetime::Formatter;

const P: &str = "C04";

/// Judges the formatting of `v` by `pic` through both library routes. Returns
/// (value-bearing tokens, class).
pub fn check_format(v: &Val, pic: &str) -> Result<(usize, &'static str), String> {
    let toks = tokenize(pic);
    let lv = ad::to_lib(v).map_err(|e| format!("model value {v:?} rejected by the checked constructor: {e:?}"))?;
    let a = ad::format_direct(&lv, pic).map_err(|p| format!("Formatter::format({} {}, {pic:?}): {p}", v.kind.name(), v.raw))?;
    let b = ad::format_lazy(&lv, pic).map_err(|p| format!("{}::format({}, {pic:?}): {p}", v.kind.name(), v.raw))?;
    let same = match (&a, &b) {
        (FmtOut::Text(x), FmtOut::Text(y)) => x == y,
        (FmtOut::FormatErr, FmtOut::FormatErr) => true,
        (FmtOut::BadPicture(_), FmtOut::BadPicture(_)) => true,
        _ => false,
    };
    if !same {
        return Err(format!("{} {} with picture {pic:?}: Formatter::format gives {a:?} but T::format + write! gives {b:?}", v.kind.name(), v.raw));
    }
    // the same through a sink that formats another value on every chunk it receives
    let (ra, rb, inner) = ad::format_reentrant(&lv, pic).map_err(|p| format!("{} {} with picture {pic:?} into a re-entrant sink: {p}", v.kind.name(), v.raw))?;
    let same2 = |x: &FmtOut, y: &FmtOut| match (x, y) {
        (FmtOut::Text(p), FmtOut::Text(q)) => p == q,
        (FmtOut::FormatErr, FmtOut::FormatErr) => true,
        (FmtOut::BadPicture(_), FmtOut::BadPicture(_)) => true,
        _ => false,
    };
    if !inner || !same2(&ra, &a) || !same2(&rb, &a) {
        return Err(format!("{} {} with picture {pic:?}: into a sink that formats another value while being written to, T::format gives {ra:?} and Formatter::format {rb:?} (inner renderings right: {inner}); into a plain String: {a:?}", v.kind.name(), v.raw));
    }
    match toks {
        None => match a {
            FmtOut::BadPicture(_) => Ok((0, "picture-rejected")),
            other => Err(format!("picture {pic:?} is not a sequence of documented tokens, yet formatting {} {} gave {other:?}", v.kind.name(), v.raw)),
        },
        Some(toks) => {
            let nval = toks.iter().filter(|t| t.is_value_bearing()).count();
            match render(v, &toks) {
                None => match a {
                    FmtOut::FormatErr => Ok((nval, "inapplicable-token-error")),
                    other => Err(format!("{} {} with picture {pic:?}: a token does not apply to this type, expected a formatting error, got {other:?}", v.kind.name(), v.raw)),
                },
                Some(want) => match a {
                    FmtOut::Text(got) => {
                        if want.matches(&got) {
                            Ok((nval, "rendered"))
                        } else {
                            Err(format!("{} {} with picture {pic:?}: got {got:?}, reference rendering is {:?}", v.kind.name(), v.raw, want.text))
                        }
                    }
                    other => Err(format!("{} {} with picture {pic:?}: got {other:?}, reference rendering is {:?}", v.kind.name(), v.raw, want.text)),
                },
            }
        }
    }
}

/// One compiled `Formatter` reused for a sequence of format / parse calls on values of
/// different types (some of which must fail): every call must behave as it would on a fresh
/// formatter. Steps: (action, raw-selector); action 0..=5 formats a value of that kind, 6..=11
/// parses the most recent formatted text (or a fixed text) as kind action-6.
pub fn check_reuse(pic: &str, steps: &[(u8, i128)]) -> Result<(), String> {
    let toks = match tokenize(pic) {
        Some(t) => t,
        None => return Ok(()),
    };
    let fmt = guarded(|| Formatter::try_new(pic)).map_err(|p| format!("try_new({pic:?}): {p}"))?.map_err(|e| format!("picture {pic:?} rejected: {e:?}"))?;
    let mut last_text = String::from("2021-12-31 23:59:59.5 PM Friday");
    for (k, (action, raw)) in steps.iter().enumerate() {
        let kind = KINDS[(*action % 6) as usize];
        let ctx = |m: String| format!("step {k} of a history on one Formatter({pic:?}): {m}");
        if *action < 6 {
            let v = Val::new(kind, *raw);
            let lv = ad::to_lib(&v).map_err(|e| ctx(format!("value rejected {e:?}")))?;
            let mut s = String::new();
            let r = guarded(|| match lv {
                LibVal::Date(x) => fmt.format(x, &mut s),
                LibVal::Time(x) => fmt.format(x, &mut s),
                LibVal::Ts(x) => fmt.format(x, &mut s),
                LibVal::Ora(x) => fmt.format(x, &mut s),
                LibVal::YM(x) => fmt.format(x, &mut s),
                LibVal::DT(x) => fmt.format(x, &mut s),
            })
            .map_err(|p| ctx(p))?;
            match (render(&v, &toks), r) {
                (Some(w), Ok(())) if w.matches(&s) => last_text = s,
                (None, Err(_)) => {}
                (w, r) => return Err(ctx(format!("formatting {} {raw} gave {r:?} / {s:?}, reference {:?}", kind.name(), w.map(|x| x.text)))),
            }
        } else {
            let reused = guarded(|| match kind {
                Kind::Date => fmt.parse::<_, sqldatetime::Date>(&last_text).map(|x| x.days() as i128),
                Kind::Time => fmt.parse::<_, sqldatetime::Time>(&last_text).map(|x| x.usecs() as i128),
                Kind::Ts => fmt.parse::<_, sqldatetime::Timestamp>(&last_text).map(|x| x.usecs() as i128),
                Kind::Ora => fmt.parse::<_, sqldatetime::OracleDate>(&last_text).map(|x| x.usecs() as i128),
                Kind::YM => fmt.parse::<_, sqldatetime::IntervalYM>(&last_text).map(|x| x.months() as i128),
                Kind::DT => fmt.parse::<_, sqldatetime::IntervalDT>(&last_text).map(|x| x.usecs() as i128),
            })
            .map_err(|p| ctx(p))?;
            let fresh = ad::parse_type(kind, &last_text, pic).map_err(|p| ctx(p))?.map(|v| v.raw);
            let same = match (&reused, &fresh) {
                (Ok(a), Ok(b)) => a == b,
                (Err(_), Err(_)) => true,
                _ => false,
            };
            if !same {
                return Err(ctx(format!("parsing {last_text:?} as {} on the reused formatter gives {reused:?}, on a fresh one {fresh:?}", kind.name())));
            }
        }
    }
    Ok(())
}

/// Concurrent histories: every thread formats its own values (see `stress_value`) twice with one
/// of three fixed pictures of the value's type; the picture texts are shared by all threads.
pub fn check_concurrent(sd: u64, threads: usize, iters: u64) -> Result<u64, String> {
    const PICS: [[&str; 3]; 6] = [
        ["YYYY-MM-DD", "Day, DD Month YYYY", "DDD D W WW Dy MON YY"],
        ["HH24:MI:SS.FF", "HH12:MI:SS AM", "FF3 SS MI HH"],
        ["YYYY-MM-DD HH24:MI:SS.FF", "DY Mon DD HH:MI:SS.FF9 P.M. YYYY", "YYYYMMDDHH24MISSFF2"],
        ["YYYY-MM-DD HH24:MI:SS", "Month DD, YYYY HH12 A.M.", "DDD/YYY WW"],
        ["YYYY-MM", "YY MM", "MM.YYYY"],
        ["DD HH24:MI:SS.FF", "DD HH24", "SS.FF4 MI"],
    ];
    stress(sd, threads, iters, |t, sm| {
        let (ki, raw) = stress_value(sd, t, sm);
        let pic = PICS[ki][sm.below(3) as usize];
        let v = Val::new(KINDS[ki], raw);
        check_format(&v, pic)?;
        check_format(&v, pic).map(|_| ())
    })
}

pub fn eval(case: &Case) -> Verdict {
    if case.kind == "reuse" {
        let steps: Vec<(u8, i128)> = case.i.chunks(2).map(|c| (c[0] as u8, c[1])).collect();
        return match check_reuse(&case.s[0], &steps) {
            Ok(()) => Verdict::Pass,
            Err(m) => Verdict::Fail(m),
        };
    }
    if case.kind == "concurrent" {
        // several repetitions: the interleaving is not pinned by the replay file
        for rep in 0..8u64 {
            if let Err(m) = check_concurrent(case.i[0] as u64 ^ rep, case.i[1] as usize, case.i[2] as u64) {
                return Verdict::Fail(m);
            }
        }
        return Verdict::Pass;
    }
    let r = match case.kind.as_str() {
        "format" => check_format(&Val::new(Kind::from_index(case.i[0] as usize), case.i[1]), &case.s[0]).map(|_| ()),
        k => Err(format!("unknown case kind {k}")),
    };
    match r {
        Ok(()) => Verdict::Pass,
        Err(m) => Verdict::Fail(m),
    }
}

fn case_of(v: &Val, pic: &str) -> Case {
    Case::new(P, "format", vec![v.kind.index() as i128, v.raw], vec![pic.to_string()])
}

const DATE_TOKENS: [&str; 26] = [
    "YYYY", "YYY", "YY", "Y", "MM", "DD", "DDD", "D", "W", "WW", "MONTH", "Month", "month", "mONTH", "MON", "Mon", "mon", "DAY", "Day", "day", "dAY", "DY", "Dy", "dy", "yyyy", "ddd",
];
const TIME_TOKENS: [&str; 16] = ["HH24", "HH", "HH12", "MI", "SS", "AM", "PM", "A.M.", "P.M.", "am", "pm", "a.m.", "p.m.", "Am", "hh24", "mi"];
const FRAC_TOKENS: [&str; 11] = ["FF", "FF1", "FF2", "FF3", "FF4", "FF5", "FF6", "FF7", "FF8", "FF9", "ff"];

/// Fast path for the big single-token sweeps: one compiled formatter, reference rendering
/// by the model, one reused buffer.
fn sweep_single(st: &mut Stats, lv: LibVal, v: &Val, pic: &str, fmt: &Formatter, toks: &[Tok], buf: &mut String, order: u64) -> bool {
    st.evaluations += 1;
    buf.clear();
    let r = guarded(|| match lv {
        LibVal::Date(x) => fmt.format(x, &mut *buf),
        LibVal::Time(x) => fmt.format(x, &mut *buf),
        LibVal::Ts(x) => fmt.format(x, &mut *buf),
        LibVal::Ora(x) => fmt.format(x, &mut *buf),
        LibVal::YM(x) => fmt.format(x, &mut *buf),
        LibVal::DT(x) => fmt.format(x, &mut *buf),
    });
    let want = render(v, toks);
    let ok = match (&r, &want) {
        (Ok(Ok(())), Some(w)) => w.matches(buf),
        (Ok(Err(_)), None) => true,
        _ => false,
    };
    if !ok {
        // re-judge through the full path for the message
        let msg = match check_format(v, pic) {
            Err(m) => m,
            Ok(_) => format!("{} {} picture {pic:?}: fast path saw {:?} / {buf:?}, reference {:?}", v.kind.name(), v.raw, r, want.map(|w| w.text)),
        };
        st.fail(order, case_of(v, pic), msg);
        return false;
    }
    true
}

pub fn run(ctx: &Ctx) -> (Stats, Report) {
    let c = cal();
    let mut st = Stats::new();
    let mut mark = (0, 0);
    run_replays(P, &mut st, &eval);
    st.section("replays", &mut mark);
    let seed = ctx.seed;

    // A: all dates x every date token (each letter-case variant) on Date; a date subset x 3
    // times on Timestamp / OracleDate
    let compiled: Vec<(&str, Formatter, Vec<Tok>)> = DATE_TOKENS.iter().map(|p| (*p, Formatter::try_new(p).expect("date token compiles"), tokenize(p).expect("reference tokenizes"))).collect();
    let cref = &compiled;
    let s = par_sweep(c.len() as u64, 1 << 12, |range, st| {
        let mut buf = String::new();
        for i in range {
            let r = &c.rows[i as usize];
            let v = Val::new(Kind::Date, r.n as i128);
            let lv = LibVal::Date(ad::date(r.n));
            for (pic, fmt, toks) in cref.iter() {
                st.nontrivial_enum += 1;
                if !sweep_single(st, lv, &v, pic, fmt, toks, &mut buf, i) {
                    return;
                }
            }
            if i % 97 == (seed % 97) || i < 400 || c.len() as u64 - i < 400 {
                for t in [0i128, pools::hms(12, 0, 0, 0), US_PER_DAY - 1] {
                    let raw = r.n as i128 * US_PER_DAY + t;
                    let vt = Val::new(Kind::Ts, raw);
                    let lt = LibVal::Ts(ad::ts(raw as i64));
                    let vo = Val::new(Kind::Ora, raw / US_PER_SEC * US_PER_SEC);
                    let lo = LibVal::Ora(ad::ora(vo.raw as i64));
                    for (pic, fmt, toks) in cref.iter() {
                        st.nontrivial_enum += 2;
                        if !sweep_single(st, lt, &vt, pic, fmt, toks, &mut buf, i) || !sweep_single(st, lo, &vo, pic, fmt, toks, &mut buf, i) {
                            return;
                        }
                    }
                }
            }
            let key = mix64(seed ^ mix64(i));
            if key < st.sample_threshold() {
                st.sample(key, || {
                    json!({"type": "Date", "value": format!("{:04}-{:02}-{:02}", r.y, r.m, r.d), "rendered": cref.iter().map(|(p, _, t)| format!("{p}={}", render(&v, t).map(|x| x.text).unwrap_or_default())).collect::<Vec<_>>().join(" ")})
                });
            }
        }
    });
    st.merge(s);
    st.exhaustive_sections.push(format!("all dates x {} date tokens (all letter-case variants) on Date", DATE_TOKENS.len()));
    st.section("date_tokens_all_dates", &mut mark);

    // B: all seconds x time tokens on Time and on timestamps of four dates
    let tcomp: Vec<(&str, Formatter, Vec<Tok>)> = TIME_TOKENS.iter().map(|p| (*p, Formatter::try_new(p).expect("time token compiles"), tokenize(p).expect("reference tokenizes"))).collect();
    let tref = &tcomp;
    let days = [c.first as i128, -1, 0, c.last as i128];
    let s = par_sweep(86_400, 256, |range, st| {
        let mut buf = String::new();
        for sec in range {
            for us in [0i128, 999_999] {
                let t = sec as i128 * US_PER_SEC + us;
                let v = Val::new(Kind::Time, t);
                let lv = LibVal::Time(ad::time(t as i64));
                for (pic, fmt, toks) in tref.iter() {
                    st.nontrivial_enum += 1;
                    if !sweep_single(st, lv, &v, pic, fmt, toks, &mut buf, sec) {
                        return;
                    }
                }
                for d in days {
                    let raw = d * US_PER_DAY + t;
                    let vt = Val::new(Kind::Ts, raw);
                    let lt = LibVal::Ts(ad::ts(raw as i64));
                    for (pic, fmt, toks) in tref.iter() {
                        st.nontrivial_enum += 1;
                        if !sweep_single(st, lt, &vt, pic, fmt, toks, &mut buf, sec) {
                            return;
                        }
                    }
                    if us == 0 {
                        let vo = Val::new(Kind::Ora, raw);
                        let lo = LibVal::Ora(ad::ora(raw as i64));
                        for (pic, fmt, toks) in tref.iter() {
                            st.nontrivial_enum += 1;
                            if !sweep_single(st, lo, &vo, pic, fmt, toks, &mut buf, sec) {
                                return;
                            }
                        }
                    }
                }
            }
        }
    });
    st.merge(s);
    st.exhaustive_sections.push(format!("all 86,400 seconds x {} time tokens on Time, Timestamp (4 dates) and OracleDate", TIME_TOKENS.len()));
    st.section("time_tokens_all_seconds", &mut mark);

    // C: all microseconds x FF, FF1..FF9
    let fcomp: Vec<(&str, Formatter, Vec<Tok>)> = FRAC_TOKENS.iter().map(|p| (*p, Formatter::try_new(p).expect("fraction token compiles"), tokenize(p).expect("reference tokenizes"))).collect();
    let fref = &fcomp;
    let s = par_sweep(1_000_000, 1 << 12, |range, st| {
        let mut buf = String::new();
        for us in range {
            let t = pools::hms(23, 59, 59, us as i128);
            let v = Val::new(Kind::Time, t);
            let lv = LibVal::Time(ad::time(t as i64));
            let vd = Val::new(Kind::DT, -(t + US_PER_DAY));
            let ld = LibVal::DT(ad::dt(vd.raw as i64));
            let vt = Val::new(Kind::Ts, ts_min() + us as i128);
            let lt = LibVal::Ts(ad::ts(vt.raw as i64));
            for (pic, fmt, toks) in fref.iter() {
                st.nontrivial_enum += 3;
                if !sweep_single(st, lv, &v, pic, fmt, toks, &mut buf, us) || !sweep_single(st, ld, &vd, pic, fmt, toks, &mut buf, us) || !sweep_single(st, lt, &vt, pic, fmt, toks, &mut buf, us) {
                    return;
                }
            }
        }
    });
    st.merge(s);
    st.exhaustive_sections.push("all 1,000,000 microsecond values x FF, FF1..FF9 on Time, IntervalDT and Timestamp".into());
    st.section("fraction_tokens_all_microseconds", &mut mark);

    // D: intervals, and the full applicability matrix with every token spelling
    let mut single: Vec<String> = vec![];
    for t in gen::menu() {
        single.push(spell(&[t.clone()]));
        single.push(gen::spell_cased(&t, 0x2aa));
        single.push(gen::spell_cased(&t, 0x155 | 0x100 | 0x200));
    }
    for t in gen::separators() {
        single.push(spell(&[t]));
    }
    single.sort();
    single.dedup();
    for kind in KINDS {
        let mut vals = pools::pool(kind, seed, if ctx.thorough { 8000 } else { 1000 });
        if matches!(kind, Kind::Ts | Kind::Ora) {
            // binary-boundary times of day (from midnight and back from the next midnight) on boundary dates
            vals.extend(pools::ts_binary_time_instants().into_iter().map(|x| Val::new(kind, if kind == Kind::Ora { x.div_euclid(US_PER_SEC) * US_PER_SEC } else { x })));
        }
        let sref = &single;
        let vref = &vals;
        let s = par_sweep(vals.len() as u64, 16, |range, st| {
            for k in range {
                let v = &vref[k as usize];
                for pic in sref.iter() {
                    st.evaluations += 1;
                    match check_format(v, pic) {
                        Ok((_, class)) => {
                            st.class(class);
                            st.fps.push(hash_bytes(hash_ints(kind.index() as u64, &[v.raw]), pic.as_bytes()));
                        }
                        Err(m) => {
                            st.fail(k, case_of(v, pic), m);
                            return;
                        }
                    }
                }
            }
        });
        st.merge(s);
    }
    st.section("applicability_matrix_pool_values", &mut mark);

    // D2: punctuation and blank runs of every length 1..=700 are copied, for every type
    {
        let probes: Vec<Val> = KINDS.iter().map(|k| pools::pool(*k, seed, 0)[3]).collect();
        let pref = &probes;
        let s = par_sweep(700, 8, |range, st| {
            for k in range {
                let n = k as usize + 1;
                for v in pref.iter() {
                    let lead = match v.kind {
                        Kind::Date | Kind::Ts | Kind::Ora => ("YYYY", "MM"),
                        Kind::Time => ("HH24", "MI"),
                        Kind::YM => ("YY", "MM"),
                        Kind::DT => ("DD", "SS"),
                    };
                    for pic in [format!("{}{}{}", lead.0, " ".repeat(n), lead.1), format!("{}{}-{}", " ".repeat(n), lead.0, " ".repeat(n / 2 + 1)), format!("{}:{}/{}", lead.1, " ".repeat(n), lead.0)] {
                        st.evaluations += 1;
                        st.nontrivial_enum += 1;
                        if n >= 256 {
                            st.class("blank-run-256-or-longer");
                        }
                        if let Err(m) = check_format(v, &pic) {
                            st.fail(k, case_of(v, &pic), m);
                            return;
                        }
                    }
                }
            }
        });
        st.merge(s);
        st.exhaustive_sections.push("blank runs of every length 1..=700 in three picture shapes x one value of each type".into());
    }
    for k in 8..=18u32 {
        for n in [(1usize << k) - 1, 1 << k, (1 << k) + 1] {
            let v = pools::pool(Kind::Date, seed, 0)[3];
            let pic = format!("YYYY{}MM", " ".repeat(n));
            st.evaluations += 1;
            st.nontrivial_enum += 1;
            st.class("blank-run-at-binary-boundary-length");
            if let Err(m) = check_format(&v, &pic) {
                st.fail(n as u64, case_of(&v, &pic), format!("blank run of {n}: {}", m.chars().take(200).collect::<String>()));
            }
        }
    }
    st.section("blank_runs_copied", &mut mark);

    // E: composite pictures (proptest)
    for kind in KINDS {
        let per = (if ctx.thorough { 8_000_000 } else { 240_000 }) / THREADS as u32;
        let s = pt_run(
            &format!("C04/composite/{}", kind.name()),
            seed,
            per,
            THREADS,
            || {
                (
                    strat::raw(kind),
                    prop_oneof![
                        7 => gen::picture(gen::menu_for(kind), 0, 36, false),
                        1 => gen::picture(gen::menu_for(kind), 30, 40, false),
                        1 => gen::picture(gen::menu_for(kind), 0, 12, true),
                        1 => gen::picture(gen::menu(), 1, 8, false),
                    ],
                )
            },
            |(raw, toks): &(i128, Vec<gen::CTok>), st: &mut Stats| {
                let pic = gen::spell_all(toks);
                let v = Val::new(kind, *raw);
                st.evaluations += 1;
                let (nval, class) = check_format(&v, &pic)?;
                st.class(class);
                if toks.len() > 30 {
                    st.class("picture-over-30-tokens");
                }
                if nval >= 1 {
                    st.fps.push(hash_bytes(hash_ints(kind.index() as u64, &[*raw]), pic.as_bytes()));
                }
                if st.evaluations % 499 == 0 {
                    let key = mix64(seed ^ hash_bytes(*raw as u64, pic.as_bytes())) | 1 << 63;
                    st.sample(key, || json!({"type": kind.name(), "raw": raw.to_string(), "picture": pic, "class": class}));
                }
                Ok(())
            },
            |(raw, toks): &(i128, Vec<gen::CTok>)| case_of(&Val::new(kind, *raw), &gen::spell_all(toks)),
        );
        st.merge(s);
    }
    st.section("composite_pictures", &mut mark);

    // F: histories on one compiled Formatter (format / parse calls of different types, some failing)
    {
        let pools_: Vec<Vec<Val>> = KINDS.iter().map(|k| pools::pool(*k, seed, 100)).collect();
        let pref = &pools_;
        let s = pt_run(
            "C04/formatter-reuse",
            seed,
            (if ctx.thorough { 1_500_000 } else { 100_000 }) / THREADS as u32,
            THREADS,
            || (prop_oneof![2 => gen::picture(gen::menu(), 1, 10, false), 1 => gen::picture(gen::menu_for(Kind::Ts), 1, 14, false), 1 => gen::picture(gen::menu_for(Kind::DT), 1, 8, false)], proptest::collection::vec((0u8..12, any::<u32>()), 2..=10)),
            |(toks, steps): &(Vec<gen::CTok>, Vec<(u8, u32)>), st: &mut Stats| {
                let pic = gen::spell_all(toks);
                let resolved: Vec<(u8, i128)> = steps.iter().map(|(a, vi)| (*a, pref[(*a % 6) as usize][*vi as usize % pref[(*a % 6) as usize].len()].raw)).collect();
                st.evaluations += resolved.len() as u64;
                check_reuse(&pic, &resolved)?;
                st.class("formatter-reuse-history");
                let flat: Vec<i128> = resolved.iter().flat_map(|s| [s.0 as i128, s.1]).collect();
                st.fps.push(hash_bytes(hash_ints(0x4f, &flat), pic.as_bytes()));
                if st.evaluations % 4999 < resolved.len() as u64 {
                    st.sample(mix64(seed ^ st.evaluations), || json!({"picture": pic, "history": resolved.iter().map(|s| format!("{} {}", if s.0 < 6 { "format" } else { "parse-as" }, KINDS[(s.0 % 6) as usize].name())).collect::<Vec<_>>()}));
                }
                Ok(())
            },
            |(toks, steps): &(Vec<gen::CTok>, Vec<(u8, u32)>)| {
                let flat: Vec<i128> = steps.iter().flat_map(|(a, vi)| [*a as i128, pref[(*a % 6) as usize][*vi as usize % pref[(*a % 6) as usize].len()].raw]).collect();
                Case::new(P, "reuse", flat, vec![gen::spell_all(toks)])
            },
        );
        st.merge(s);
    }
    st.section("formatter_reuse_histories", &mut mark);

    // concurrent histories: 16 threads format their own values with shared picture texts
    {
        let iters = if ctx.thorough { 400_000 } else { 20_000 };
        for rep in 0..4u64 {
            let sd = seed ^ mix64(0xc04 ^ rep);
            match check_concurrent(sd, THREADS, iters) {
                Ok(n) => {
                    st.evaluations += 2 * n;
                    st.nontrivial_enum += 2 * n;
                    st.class_n("concurrent-format", 2 * n);
                }
                Err(m) => st.fail(rep, Case::new(P, "concurrent", vec![sd as i128, THREADS as i128, iters as i128], vec![]), m),
            }
        }
    }
    st.section("concurrent_histories", &mut mark);

    let rep = Report {
        rule: "E1 exhaustive: all 3,652,059 dates x every date token in every letter-case variant on Date (and a 1/97 date subset + both range ends x 3 times on Timestamp/OracleDate); all 86,400 seconds x every time/meridian token on Time, Timestamp (4 dates incl. pre-1970) and OracleDate; all 10^6 microseconds x FF, FF1..FF9 on Time, negative IntervalDT and Timestamp; every single-token spelling x boundary+seeded pool values of all six types (applicability matrix). E2: proptest-generated composite pictures of 0..=40 tokens (applicable menus, plus small pictures over the whole menu) x generated values, through Formatter::format and T::format+write!. Oracle: independent reference renderer on the reference tokenization, byte for byte (case-insensitive only where the statement leaves the case open); an inapplicable token must produce an error. Non-trivial = picture with at least one value-bearing token; distinct by (type, picture, value).".into(),
        assumptions: vec![
            "year-month interval years print all digits zero-padded to at least the token width; day-time interval days print at least two digits".into(),
            "name tokens whose first letter is lower and second upper, and mixed-case meridian tokens, are compared ignoring case (the statement fixes no style for them)".into(),
        ],
        exhaustive: false,
        extra: Default::default(),
    };
    (st, rep)
}
