//! C10 – truncation returns the latest unit boundary not after the value.
//! (Also hosts the dispatch helpers shared with C11 and C17.)

use crate::adapter as ad;
use crate::engine::*;
use crate::model::cal::*;
use crate::pools;
use serde_json::json;
use sqldatetime::{Date, Error, OracleDate, Round, Timestamp, Trunc};

const P: &str = "C10";

macro_rules! dispatch {
    ($name:ident, $t:ty, $($u:ident => $m:ident),*) => {
        pub fn $name(u: Unit, x: $t) -> Result<$t, Error> {
            match u { $(Unit::$u => x.$m(),)* }
        }
    };
}
dispatch!(trunc_date, Date, Century => trunc_century, Year => trunc_year, IsoYear => trunc_iso_year, Quarter => trunc_quarter, Month => trunc_month, Week => trunc_week, IsoWeek => trunc_iso_week, MonthWeek => trunc_month_start_week, Day => trunc_day, SundayWeek => trunc_sunday_start_week, Hour => trunc_hour, Minute => trunc_minute);
dispatch!(trunc_ts, Timestamp, Century => trunc_century, Year => trunc_year, IsoYear => trunc_iso_year, Quarter => trunc_quarter, Month => trunc_month, Week => trunc_week, IsoWeek => trunc_iso_week, MonthWeek => trunc_month_start_week, Day => trunc_day, SundayWeek => trunc_sunday_start_week, Hour => trunc_hour, Minute => trunc_minute);
dispatch!(trunc_ora, OracleDate, Century => trunc_century, Year => trunc_year, IsoYear => trunc_iso_year, Quarter => trunc_quarter, Month => trunc_month, Week => trunc_week, IsoWeek => trunc_iso_week, MonthWeek => trunc_month_start_week, Day => trunc_day, SundayWeek => trunc_sunday_start_week, Hour => trunc_hour, Minute => trunc_minute);
dispatch!(round_date, Date, Century => round_century, Year => round_year, IsoYear => round_iso_year, Quarter => round_quarter, Month => round_month, Week => round_week, IsoWeek => round_iso_week, MonthWeek => round_month_start_week, Day => round_day, SundayWeek => round_sunday_start_week, Hour => round_hour, Minute => round_minute);
dispatch!(round_ts, Timestamp, Century => round_century, Year => round_year, IsoYear => round_iso_year, Quarter => round_quarter, Month => round_month, Week => round_week, IsoWeek => round_iso_week, MonthWeek => round_month_start_week, Day => round_day, SundayWeek => round_sunday_start_week, Hour => round_hour, Minute => round_minute);
dispatch!(round_ora, OracleDate, Century => round_century, Year => round_year, IsoYear => round_iso_year, Quarter => round_quarter, Month => round_month, Week => round_week, IsoWeek => round_iso_week, MonthWeek => round_month_start_week, Day => round_day, SundayWeek => round_sunday_start_week, Hour => round_hour, Minute => round_minute);

/// Calls trunc (round = false) or round through the type selected by `which`
/// (0 = Date, 1 = Timestamp, 2 = OracleDate) for the instant (day n, time t); the result is
/// the raw microsecond count of the returned instant.
pub fn call_unit(which: u8, round: bool, u: Unit, n: i32, t: i64) -> Result<Result<i128, Error>, String> {
    guarded(|| match which {
        0 => {
            let d = ad::date(n);
            (if round { round_date(u, d) } else { trunc_date(u, d) }).map(|x| x.days() as i128 * US_PER_DAY)
        }
        1 => {
            let x = ad::ts((n as i128 * US_PER_DAY + t as i128) as i64);
            (if round { round_ts(u, x) } else { trunc_ts(u, x) }).map(|x| x.usecs() as i128)
        }
        _ => {
            let x = ad::ora((n as i128 * US_PER_DAY + t as i128) as i64);
            (if round { round_ora(u, x) } else { trunc_ora(u, x) }).map(|x| x.usecs() as i128)
        }
    })
}

pub const WHICH: [&str; 3] = ["Date", "Timestamp", "OracleDate"];

thread_local! {
    static BOUNDS: std::cell::RefCell<std::collections::HashMap<Unit, std::rc::Rc<Bounds>>> = std::cell::RefCell::new(Default::default());
}

/// Per-thread cache of the boundary tables (used by replays and pool-based checks).
pub fn bounds_cached(u: Unit) -> std::rc::Rc<Bounds> {
    BOUNDS.with(|b| b.borrow_mut().entry(u).or_insert_with(|| std::rc::Rc::new(bounds(u))).clone())
}

/// Model truncation of the instant (day index i, time t): None = no boundary in range.
pub fn model_trunc(u: Unit, b: &Bounds, i: usize, t: i64) -> Option<i128> {
    let c = cal();
    match u {
        Unit::Hour => Some(c.rows[i].n as i128 * US_PER_DAY + (t as i128 / US_PER_HOUR) * US_PER_HOUR),
        Unit::Minute => Some(c.rows[i].n as i128 * US_PER_DAY + (t as i128 / US_PER_MIN) * US_PER_MIN),
        _ => {
            let p = b.prev[i];
            if p == NONE_BEFORE {
                None
            } else {
                Some(c.rows[p as usize].n as i128 * US_PER_DAY)
            }
        }
    }
}

pub fn check_trunc(which: u8, u: Unit, b: &Bounds, n: i32, t: i64) -> Result<(), String> {
    let c = cal();
    let i = c.idx(n);
    let t_eff = if which == 0 { 0 } else { t };
    let want = model_trunc(u, b, i, t_eff);
    let got = call_unit(which, false, u, n, t_eff)?;
    let r = &c.rows[i];
    let ctx = || format!("{}({:04}-{:02}-{:02} +{t_eff}us).trunc_{}()", WHICH[which as usize], r.y, r.m, r.d, u.name());
    let input = n as i128 * US_PER_DAY + t_eff as i128;
    match (want, got) {
        (Some(w), Ok(g)) => {
            if g != w {
                return Err(format!("{} = {} , expected {} (latest boundary not after the input)", ctx(), show(g), show(w)));
            }
            if g > input {
                return Err(format!("{} moved forward", ctx()));
            }
            // idempotence through the library
            let gi = c.idx(g.div_euclid(US_PER_DAY) as i32);
            let again = call_unit(which, false, u, c.rows[gi].n, g.rem_euclid(US_PER_DAY) as i64)?;
            if again != Ok(g) {
                return Err(format!("{} is not idempotent: trunc(trunc(x)) = {:?}", ctx(), again.map(show)));
            }
            Ok(())
        }
        (None, Err(_)) => Ok(()),
        (Some(w), Err(e)) => Err(format!("{} = Err({e:?}), expected {}", ctx(), show(w))),
        (None, Ok(g)) => Err(format!("{} = {} although the boundary lies before 0001-01-01 (an error is required)", ctx(), show(g))),
    }
}

pub fn show(us: i128) -> String {
    let d = us.div_euclid(US_PER_DAY);
    let t = us.rem_euclid(US_PER_DAY);
    match cal().row(d as i64) {
        Some(r) => format!("{:04}-{:02}-{:02} {:02}:{:02}:{:02}.{:06}", r.y, r.m, r.d, t / US_PER_HOUR, t % US_PER_HOUR / US_PER_MIN, t % US_PER_MIN / US_PER_SEC, t % US_PER_SEC),
        None => format!("<out of range {us}>"),
    }
}

pub fn eval(case: &Case) -> Verdict {
    let i = &case.i;
    let r = match case.kind.as_str() {
        "trunc" => {
            let u = Unit::from_index(i[1] as usize);
            let b = bounds_cached(u);
            check_trunc(i[0] as u8, u, &b, i[2] as i32, i[3] as i64)
        }
        k => Err(format!("unknown case kind {k}")),
    };
    match r {
        Ok(()) => Verdict::Pass,
        Err(m) => Verdict::Fail(m),
    }
}

pub fn critical_times() -> Vec<i64> {
    [
        0,
        1,
        pools::hms(0, 0, 29, 999_999),
        pools::hms(0, 0, 30, 0),
        pools::hms(0, 29, 59, 999_999),
        pools::hms(0, 30, 0, 0),
        pools::hms(11, 59, 0, 0),
        pools::hms(11, 59, 59, 999_999),
        pools::hms(12, 0, 0, 0),
        pools::hms(12, 0, 0, 1),
        pools::hms(23, 29, 59, 999_999),
        pools::hms(23, 30, 0, 0),
        pools::hms(23, 59, 29, 999_999),
        pools::hms(23, 59, 30, 0),
        pools::hms(23, 59, 59, 999_999),
        // calendar constants of the domain read as a microsecond count, from midnight and back
        // from the next midnight (a day number or Julian day used where microseconds are meant)
        2_440_588,
        US_PER_DAY - 2_440_588,
        719_163,
        US_PER_DAY - 719_163,
    ]
    .iter()
    .map(|x| *x as i64)
    .collect::<std::collections::BTreeSet<i64>>() // ascending: C11's monotonicity walk relies on it
    .into_iter()
    .collect()
}

/// Days whose every second is visited in the thorough tier.
pub fn sampled_days(seed: u64, n: usize) -> Vec<i32> {
    let c = cal();
    let mut v = vec![c.first, c.first + 1, c.first + 2, c.first + 3, c.last, c.last - 1, c.last - 2, -1, 0, 1];
    for (y, m, d) in [(1999, 12, 31), (2000, 1, 1), (2000, 2, 29), (2000, 12, 31), (1900, 12, 31), (9999, 12, 25), (9999, 12, 29), (9998, 12, 31), (2021, 1, 4), (2024, 12, 30)] {
        v.push(c.lookup(y, m, d).unwrap());
    }
    // days on which a count in some derived unit crosses +-2^k (i32 seconds, 2^53 us, ...)
    for d in pools::binary_boundary_days(n > 40) {
        if c.in_range(d as i64) {
            v.push(d);
        }
    }
    let mut sm = SplitMix(seed ^ 0x5a);
    let target = v.len() + n.saturating_sub(20);
    while v.len() < target {
        v.push(c.first + sm.below(c.len() as u64) as i32);
    }
    v.sort();
    v.dedup();
    v
}

pub fn run(ctx: &Ctx) -> (Stats, Report) {
    let c = cal();
    let mut st = Stats::new();
    let mut mark = (0, 0);
    run_replays(P, &mut st, &eval);
    st.section("replays", &mut mark);
    let seed = ctx.seed;
    let times = critical_times();

    for u in UNITS {
        let b = bounds(u);
        let bref = &b;
        let tref = &times;
        let s = par_sweep(c.len() as u64, 1 << 12, |range, st| {
            let mut last: [Option<i128>; 3] = [None; 3];
            for i in range {
                let r = &c.rows[i as usize];
                let on_boundary = starts_unit(u, r);
                let near_end = (i as usize) < 7 || c.len() - (i as usize) <= 7;
                // Date
                st.evaluations += 1;
                if !on_boundary || near_end {
                    st.nontrivial_enum += 1;
                }
                if near_end {
                    st.class("within-7-days-of-a-range-end");
                }
                if let Err(m) = check_trunc(0, u, bref, r.n, 0) {
                    st.fail(i, Case::new(P, "trunc", vec![0, u.index() as i128, r.n as i128, 0], vec![]), m);
                    return;
                }
                // monotone along the sweep (Date)
                if let Some(Some(w)) = Some(model_trunc(u, bref, i as usize, 0)) {
                    if let Some(prev) = last[0] {
                        if w < prev {
                            st.fail(i, Case::new(P, "trunc", vec![0, u.index() as i128, r.n as i128, 0], vec![]), "model boundaries not monotone (harness bug)".into());
                            return;
                        }
                    }
                    last[0] = Some(w);
                }
                // Timestamp and OracleDate at the critical times
                for (k, &t) in tref.iter().enumerate() {
                    for which in [1u8, 2] {
                        let tt = if which == 2 { t / 1_000_000 * 1_000_000 } else { t };
                        st.evaluations += 1;
                        if !(on_boundary && tt == 0) || near_end {
                            st.nontrivial_enum += 1;
                        }
                        if let Err(m) = check_trunc(which, u, bref, r.n, tt) {
                            st.fail(i, Case::new(P, "trunc", vec![which as i128, u.index() as i128, r.n as i128, tt as i128], vec![]), m);
                            return;
                        }
                    }
                    if k == 3 {
                        let key = mix64(seed ^ mix64(i * 977 + u.index() as u64));
                        if key < st.sample_threshold() && !on_boundary {
                            st.sample(key, || json!({"type": "Timestamp", "unit": u.name(), "input": show(r.n as i128 * US_PER_DAY + t as i128), "expected": model_trunc(u, bref, i as usize, t).map(show)}));
                        }
                    }
                }
            }
        });
        st.merge(s);
        st.class_n("units-swept", 1);
    }
    st.exhaustive_sections.push("all dates x 12 units on Date; all dates x 15 critical times x 12 units on Timestamp and OracleDate".into());
    st.section("all_dates_x_units", &mut mark);

    // call-order histories: the same calls in descending and in scrambled date order, all units
    // interleaved on one thread, so that anything a call leaves behind meets a later call on an
    // earlier / unrelated date and a different unit
    {
        let all: Vec<std::sync::Arc<Bounds>> = UNITS.iter().map(|u| std::sync::Arc::new(bounds(*u))).collect();
        let aref = &all;
        let chunk: u64 = 1 << 12;
        let s = par_sweep(c.len() as u64, chunk, |range, st| {
            let (lo, len) = (range.start, range.end - range.start);
            for pass in 0..2u64 {
                for k in 0..len {
                    // pass 0: descending; pass 1: scrambled (2731 is odd and coprime to every chunk length used)
                    let i = if pass == 0 { range.end - 1 - k } else { lo + (k * 2731 + 17) % len };
                    let r = &c.rows[i as usize];
                    for (ui, u) in UNITS.iter().enumerate() {
                        let which = ((i + ui as u64 + pass) % 3) as u8;
                        let t = if which == 0 { 0 } else { [0i64, 43_200_000_000, 86_399_000_000][(i % 3) as usize] };
                        st.evaluations += 1;
                        st.nontrivial_enum += 1;
                        if let Err(m) = check_trunc(which, *u, &aref[ui], r.n, t) {
                            st.fail(i, Case::new(P, "trunc", vec![which as i128, u.index() as i128, r.n as i128, t as i128], vec![]), format!("{m} [in a {} sweep with the units interleaved: depends on earlier calls if the single call passes]", if pass == 0 { "descending" } else { "scrambled" }));
                            return;
                        }
                    }
                }
            }
        });
        st.merge(s);
        st.class_n("call-order-history-passes", 2);
    }
    st.exhaustive_sections.push("all dates again in descending and in scrambled order, 12 units interleaved over the three types".into());
    st.section("call_order_histories", &mut mark);

    // every second of sampled days (hour / minute boundaries and everything else)
    let days = sampled_days(seed, if ctx.thorough { 400 } else { 12 });
    for u in UNITS {
        let b = bounds(u);
        let bref = &b;
        let dref = &days;
        let s = par_sweep(days.len() as u64 * 86_400, 4096, |range, st| {
            for k in range {
                let n = dref[(k / 86_400) as usize];
                let sec = (k % 86_400) as i64;
                for us in [0i64, 999_999] {
                    let t = sec * 1_000_000 + us;
                    st.evaluations += 1;
                    st.nontrivial_enum += 1;
                    if us == 0 {
                        // whole seconds also through the Oracle-style date
                        st.evaluations += 1;
                        if let Err(m) = check_trunc(2, u, bref, n, t) {
                            st.fail(k, Case::new(P, "trunc", vec![2, u.index() as i128, n as i128, t as i128], vec![]), m);
                            return;
                        }
                    }
                    if let Err(m) = check_trunc(1, u, bref, n, t) {
                        st.fail(k, Case::new(P, "trunc", vec![1, u.index() as i128, n as i128, t as i128], vec![]), m);
                        return;
                    }
                }
                st.evaluations += 1;
                if let Err(m) = check_trunc(2, u, bref, n, sec * 1_000_000) {
                    st.fail(k, Case::new(P, "trunc", vec![2, u.index() as i128, n as i128, (sec * 1_000_000) as i128], vec![]), m);
                    return;
                }
            }
        });
        st.merge(s);
    }
    // boundary dates x binary times of day (2^k us / ms / s, multiples of 2^32 us)
    let btods = pools::binary_times_of_day();
    let bdates = pools::date_pool(seed, 60);
    for u in UNITS {
        let b = bounds(u);
        let (bref, tref, dref) = (&b, &btods, &bdates);
        let s = par_sweep(bdates.len() as u64, 4, |range, st| {
            for k in range {
                let n = dref[k as usize] as i32;
                for &t in tref.iter() {
                    st.evaluations += 1;
                    st.nontrivial_enum += 1;
                    if let Err(m) = check_trunc(1, u, bref, n, t as i64) {
                        st.fail(k, Case::new(P, "trunc", vec![1, u.index() as i128, n as i128, t], vec![]), m);
                        return;
                    }
                    if t % 1_000_000 == 0 {
                        st.evaluations += 1;
                        if let Err(m) = check_trunc(2, u, bref, n, t as i64) {
                            st.fail(k, Case::new(P, "trunc", vec![2, u.index() as i128, n as i128, t], vec![]), m);
                            return;
                        }
                    }
                }
            }
        });
        st.merge(s);
    }
    st.section("every_second_of_sampled_days", &mut mark);

    let rep = Report {
        rule: "Exhaustive: all 3,652,059 dates x 12 units on Date; all dates x 15 critical times of day x 12 units on Timestamp and OracleDate; every second (first and last microsecond) of sampled days (range ends, year ends, leap days, days around 1970, seeded). Oracle: per-unit boundary predicates over the walked calendar; expected = latest boundary <= input (one forward pass), time cleared for units >= day, integer division for hour/minute; Err iff no boundary in range; idempotence re-checked through the library. Non-trivial = input not itself a boundary, or within 7 days of a range end; distinct by enumeration.".into(),
        assumptions: vec!["ISO year boundary = the Monday within Dec 29 ..= Jan 4; year-anchored week = day-of-year 1, 8, 15, ...; month-anchored week = day 1, 8, 15, 22, 29".into()],
        exhaustive: true,
        extra: Default::default(),
    };
    (st, rep)
}
