//! C05 – parsing returns the value the text denotes and rejects text that denotes none.

use crate::adapter as ad;
use crate::engine::*;
use crate::model::cal::*;
use crate::model::text::*;
use crate::speller::{self, Built};
use crate::strat;
use proptest::prelude::*;
use serde_json::json;

const P: &str = "C05";

/// Parses `text` by `pic` as `kind` through both entry points; `expect` = Some(raw count the
/// text denotes) or None (the text denotes no value: any error is required).
pub fn check_parse(kind: Kind, pic: &str, text: &str, expect: Option<i128>) -> Result<(), String> {
    let a = ad::parse_type(kind, text, pic).map_err(|p| format!("{}::parse({text:?}, {pic:?}): {p}", kind.name()))?;
    let b = ad::parse_direct(kind, text, pic).map_err(|p| format!("Formatter::parse::<{}>({text:?}) with {pic:?}: {p}", kind.name()))?;
    let av = a.as_ref().ok().map(|v| v.raw);
    let bv = b.as_ref().ok().map(|v| v.raw);
    if av != bv {
        return Err(format!("{}::parse({text:?}, {pic:?}) = {a:?} but Formatter::parse = {b:?}", kind.name()));
    }
    // a third route: a formatter compiled once per thread and picture and kept (long-lived); it
    // has parsed other texts, as other types, before
    let c = ad::parse_long_lived(kind, text, pic).map_err(|p| format!("Formatter::parse::<{}>({text:?}) through a long-lived formatter for {pic:?}: {p}", kind.name()))?;
    if c.as_ref().ok().map(|v| v.raw) != av {
        return Err(format!("{}::parse({text:?}, {pic:?}) = {a:?} but a long-lived Formatter for the same picture gives {c:?}", kind.name()));
    }
    match (expect, a) {
        (Some(w), Ok(v)) => {
            if v.raw == w {
                Ok(())
            } else {
                Err(format!("{}::parse({text:?}, {pic:?}) = {} ({}), the text denotes {w} ({})", kind.name(), v.raw, show(kind, v.raw), show(kind, w)))
            }
        }
        (Some(w), Err(e)) => Err(format!("{}::parse({text:?}, {pic:?}) = Err({e:?}), the text denotes {w} ({})", kind.name(), show(kind, w))),
        (None, Ok(v)) => Err(format!("{}::parse({text:?}, {pic:?}) = Ok({}) ({}), but the text denotes no value: an error is required", kind.name(), v.raw, show(kind, v.raw))),
        (None, Err(_)) => Ok(()),
    }
}

pub fn show(kind: Kind, raw: i128) -> String {
    let v = Val::new(kind, raw);
    if !ad::in_range(&v) {
        return "out of range".into();
    }
    let pic = match kind {
        Kind::Date => "YYYY-MM-DD",
        Kind::Time => "HH24:MI:SS.FF6",
        Kind::Ts => "YYYY-MM-DD HH24:MI:SS.FF6",
        Kind::Ora => "YYYY-MM-DD HH24:MI:SS",
        Kind::YM => "YYYY-MM",
        Kind::DT => "DD HH24:MI:SS.FF6",
    };
    render(&v, &tokenize(pic).unwrap()).map(|r| r.text).unwrap_or_default()
}

pub fn eval(case: &Case) -> Verdict {
    let r = match case.kind.as_str() {
        "parse" => {
            let kind = Kind::from_index(case.i[0] as usize);
            let expect = if case.i[1] != 0 { Some(case.i[2]) } else { None };
            check_parse(kind, &case.s[0], &case.s[1], expect)
        }
        k => Err(format!("unknown case kind {k}")),
    };
    match r {
        Ok(()) => Verdict::Pass,
        Err(m) => Verdict::Fail(m),
    }
}

pub fn case_of(kind: Kind, pic: &str, text: &str, expect: Option<i128>) -> Case {
    Case::new(P, "parse", vec![kind.index() as i128, expect.is_some() as i128, expect.unwrap_or(0)], vec![pic.to_string(), text.to_string()])
}

fn judge_built(b: &Built) -> Result<(), String> {
    check_parse(b.kind, &b.picture, &b.text, b.expect)
}

pub const NCHOICES: usize = 96;

pub fn run(ctx: &Ctx) -> (Stats, Report) {
    let c = cal();
    let mut st = Stats::new();
    let mut mark = (0, 0);
    run_replays(P, &mut st, &eval);
    st.section("replays", &mut mark);
    let seed = ctx.seed;

    // E1a: every (year, day-of-year 0..=367)
    let s = par_sweep(9999, 8, |range, st| {
        for yi in range {
            let y = yi as i64 + 1;
            for doy in 0..=367i64 {
                let want = c.lookup_doy(y, doy).map(|n| n as i128);
                let variants: [(String, &str); 3] = [(format!("{y:04} {doy:03}"), "YYYY DDD"), (format!("{doy}/{y}"), "DDD/YYYY"), (format!("{y:04}{doy:03}"), "YYYYDDD")];
                for (text, pic) in variants.iter() {
                    st.evaluations += 1;
                    if want.is_none() {
                        st.class("day-of-year-not-in-year");
                        st.nontrivial_enum += 1;
                    } else if pic.len() != 8 || text.len() != 8 {
                        st.nontrivial_enum += 1;
                    }
                    if let Err(m) = check_parse(Kind::Date, pic, text, want) {
                        st.fail(yi, case_of(Kind::Date, pic, text, want), m);
                        return;
                    }
                }
                if doy == 60 {
                    // timestamps through the same mapping, with a weekday cross-check
                    if let Some(n) = want {
                        let r = c.row(n as i64).unwrap();
                        let text = format!("{} {y}-{doy} 23:59:59", &DAY_NAMES[r.wd as usize - 1][..3]);
                        st.evaluations += 1;
                        st.nontrivial_enum += 1;
                        let w = n * US_PER_DAY + 86_399 * US_PER_SEC;
                        if let Err(m) = check_parse(Kind::Ts, "DY YYYY-DDD HH24:MI:SS", &text, Some(w)) {
                            st.fail(yi, case_of(Kind::Ts, "DY YYYY-DDD HH24:MI:SS", &text, Some(w)), m);
                            return;
                        }
                    }
                }
            }
        }
    });
    st.merge(s);
    st.exhaustive_sections.push("every (year 1..=9999, day-of-year 0..=367) through YYYY DDD, DDD/YYYY, YYYYDDD".into());
    st.section("year_x_day_of_year", &mut mark);

    // E1a2: year-month interval texts in every field order with a sign on either field: the sign
    // of the interval is the sign of the year field; a minus sign on the month puts it outside
    // 0..=11 (no value), a plus sign is a plain number; month 12 and a total past the limit denote
    // no value either
    {
        let mut n = 0u64;
        'ym: for y in [0i128, 1, 5, 12, 9999, 177_999_999, 178_000_000] {
            for m in 0..=12i128 {
                for ys in ["", "+", "-"] {
                    for ms in ["", "+", "-"] {
                        let total = (y * 12 + m) * if ys == "-" { -1 } else { 1 };
                        let want = if ms == "-" || m > 11 || total.abs() > 178_000_000 * 12 { None } else { Some(total) };
                        let variants: [(&str, String); 5] = [
                            ("MM-YYYY", format!("{ms}{m}-{ys}{y}")),
                            ("MM YYYY", format!("{ms}{m:02} {ys}{y}")),
                            ("MM/YYYY", format!("{ms}{m}/{ys}{y}")),
                            ("YYYY-MM", format!("{ys}{y}-{ms}{m:02}")),
                            ("YYYY MM", format!("{ys}{y} {ms}{m}")),
                        ];
                        for (pic, text) in variants.iter() {
                            n += 1;
                            st.evaluations += 1;
                            st.nontrivial_enum += 1;
                            st.class(if ms == "-" { "interval-month-with-minus-sign" } else { "interval-fields-in-another-order" });
                            if let Err(msg) = check_parse(Kind::YM, pic, text, want) {
                                st.fail(n, case_of(Kind::YM, pic, text, want), msg);
                                break 'ym;
                            }
                        }
                    }
                }
            }
        }
        st.exhaustive_sections.push("year-month interval texts: 7 year values x months 0..=12 x sign on the year x sign on the month x 5 field orders / separators".into());
    }
    st.section("interval_field_orders_and_signs", &mut mark);

    // E1b: every date through five pictures
    let s = par_sweep(c.len() as u64, 1 << 11, |range, st| {
        for i in range {
            let r = &c.rows[i as usize];
            let n = r.n as i128;
            let mon = MONTH_NAMES[r.m as usize - 1];
            let day = DAY_NAMES[r.wd as usize - 1];
            let flip = |s: &str, k: u64| -> String { s.bytes().enumerate().map(|(j, b)| if (mix64(i ^ k) >> (j % 60)) & 1 == 1 { b.to_ascii_uppercase() as char } else { b.to_ascii_lowercase() as char }).collect() };
            let cases: [(String, &str); 6] = [
                (format!("{:04}-{:02}-{:02}", r.y, r.m, r.d), "YYYY-MM-DD"),
                (format!("{}/{}/{}", r.y, r.m, r.d), "YYYY/MM/DD"),
                (format!("{} {} {}", r.d, flip(mon, 1), r.y), "DD Month YYYY"),
                (format!("{}, {:02} {} {:04}", flip(&day[..3], 2), r.d, flip(&mon[..3], 3), r.y), "Dy, DD Mon YYYY"),
                (format!("{:04}-{:02}-{:02} {} {:03}", r.y, r.m, r.d, r.wd, r.doy), "YYYY-MM-DD D DDD"),
                (format!("{} {}{:02}  +{}", flip(day, 4), flip(mon, 5), r.d, r.y), "DAY MMDD YYYY"),
            ];
            for (k, (text, pic)) in cases.iter().enumerate() {
                st.evaluations += 1;
                if k > 0 {
                    st.nontrivial_enum += 1;
                }
                if let Err(m) = check_parse(Kind::Date, pic, text, Some(n)) {
                    st.fail(i, case_of(Kind::Date, pic, text, Some(n)), m);
                    return;
                }
            }
            // one disagreeing weekday per date must be rejected
            let wrong = DAY_NAMES[(r.wd as usize) % 7];
            let text = format!("{wrong} {:04}-{:02}-{:02}", r.y, r.m, r.d);
            st.evaluations += 1;
            st.nontrivial_enum += 1;
            st.class("weekday-disagrees");
            if let Err(m) = check_parse(Kind::Date, "DAY YYYY-MM-DD", &text, None) {
                st.fail(i, case_of(Kind::Date, "DAY YYYY-MM-DD", &text, None), m);
                return;
            }
            let key = mix64(seed ^ mix64(i ^ 0x55));
            if key < st.sample_threshold() {
                st.sample(key, || json!({"type": "Date", "picture": cases[3].1, "text": cases[3].0, "denotes": show(Kind::Date, n)}));
            }
        }
    });
    st.merge(s);
    st.exhaustive_sections.push("every date through six pictures (padded, unpadded, names in random case, weekday name, weekday number + day of year, month name under MM) and one wrong weekday".into());
    st.section("all_dates_x_pictures", &mut mark);

    // E1c: every second of the day, 24-hour and 12-hour + meridian, both orders
    let s = par_sweep(86_400, 128, |range, st| {
        for sec in range {
            let (h, mi, s) = (sec / 3600, sec / 60 % 60, sec % 60);
            let t = sec as i128 * US_PER_SEC;
            let h12 = speller::hour12(h as u32);
            let mer = if h < 12 { "AM" } else { "PM" };
            let merd = if h < 12 { "a.m." } else { "p.m." };
            let cases: [(String, &str); 7] = [
                (format!("{h:02}:{mi:02}:{s:02}"), "HH24:MI:SS"),
                (format!("{h}:{mi}:{s}"), "HH24:MI:SS"),
                (format!("{h12:02}:{mi:02}:{s:02} {mer}"), "HH:MI:SS AM"),
                (format!("{mer} {h12}:{mi}:{s}"), "PM HH12:MI:SS"),
                (format!("{h12:02}{mi:02}{s:02}{}", mer.to_ascii_lowercase()), "HHMISSAM"),
                (format!("{merd} {s:02} {mi:02} {h12:02}"), "A.M. SS MI HH"),
                (format!("{h:02}{mi:02}{s:02}.000000"), "HH24MISS.FF"),
            ];
            for (k, (text, pic)) in cases.iter().enumerate() {
                st.evaluations += 1;
                if k >= 1 {
                    st.nontrivial_enum += 1;
                }
                if let Err(m) = check_parse(Kind::Time, pic, text, Some(t)) {
                    st.fail(sec, case_of(Kind::Time, pic, text, Some(t)), m);
                    return;
                }
            }
            // the same inside timestamps before and after 1970, and oracle dates
            for (d, dtxt) in [(c.first as i128, "0001-01-01"), (-1i128, "1969-12-31"), (c.last as i128, "9999-12-31")] {
                let text = format!("{dtxt} {h12}:{mi:02}:{s:02} {mer}");
                st.evaluations += 2;
                st.nontrivial_enum += 2;
                let w = d * US_PER_DAY + t;
                if let Err(m) = check_parse(Kind::Ts, "YYYY-MM-DD HH:MI:SS PM", &text, Some(w)) {
                    st.fail(sec, case_of(Kind::Ts, "YYYY-MM-DD HH:MI:SS PM", &text, Some(w)), m);
                    return;
                }
                if let Err(m) = check_parse(Kind::Ora, "YYYY-MM-DD HH:MI:SS PM", &text, Some(w)) {
                    st.fail(sec, case_of(Kind::Ora, "YYYY-MM-DD HH:MI:SS PM", &text, Some(w)), m);
                    return;
                }
            }
        }
    });
    st.merge(s);
    st.exhaustive_sections.push("every second of the day in 24-hour and 12-hour + meridian notation, both field orders, padded and unpadded".into());
    st.section("all_seconds_x_notations", &mut mark);

    // E1d: fraction rounding: every 7-digit fraction (quick: strided), carry chain per type
    let stride = if ctx.thorough { 1 } else { 37 };
    let s = par_sweep(10_000_000 / stride, 1 << 12, |range, st| {
        for k in range {
            let n = k * stride + (seed % stride);
            let text = format!("23:59:59.{n:07}");
            let us = (n as i128 + 5) / 10;
            let total = 86_399 * US_PER_SEC + us;
            let want = if total < US_PER_DAY { Some(total) } else { None };
            st.evaluations += 1;
            if n % 10 >= 5 {
                st.nontrivial_enum += 1;
            }
            if let Err(m) = check_parse(Kind::Time, "HH24:MI:SS.FF7", &text, want) {
                st.fail(k, case_of(Kind::Time, "HH24:MI:SS.FF7", &text, want), m);
                return;
            }
        }
    });
    st.merge(s);
    if ctx.thorough {
        st.exhaustive_sections.push("every 7-digit fraction through HH24:MI:SS.FF7".into());
    }
    let mut k = 0u64;
    for digits in ["9999995", "99999950", "999999500", "999999499", "9999994", "0000005", "0000004", "4999995", "999999999", "000000500", "000000499"] {
        let n: i128 = digits.parse().unwrap();
        let scale = 10i128.pow(digits.len() as u32 - 6);
        let us = (n + scale / 2) / scale;
        let cases: Vec<(Kind, String, &str, Option<i128>)> = vec![
            (Kind::Time, format!("23:59:59.{digits}"), "HH24:MI:SS.FF", if 86_399 * US_PER_SEC + us < US_PER_DAY { Some(86_399 * US_PER_SEC + us) } else { None }),
            (Kind::Time, format!("11:59:59.{digits}"), "HH24:MI:SS.FF9", Some(43_199 * US_PER_SEC + us)),
            (Kind::Ts, format!("1999-12-31 23:59:59.{digits}"), "YYYY-MM-DD HH24:MI:SS.FF", Some(crate::pools::ymd(1999, 12, 31) * US_PER_DAY + 86_399 * US_PER_SEC + us)),
            (Kind::Ts, format!("0001-01-01 00:00:00.{digits}"), "YYYY-MM-DD HH24:MI:SS.FF", Some(ts_min() + us)),
            (Kind::Ts, format!("9999-12-31 23:59:59.{digits}"), "YYYY-MM-DD HH24:MI:SS.FF", if ts_max() - 999_999 + us <= ts_max() { Some(ts_max() - 999_999 + us) } else { None }),
            (Kind::DT, format!("1 00:00:59.{digits}"), "DD HH24:MI:SS.FF", Some(US_PER_DAY + 59 * US_PER_SEC + us)),
            (Kind::DT, format!("-1 23:59:59.{digits}"), "DD HH24:MI:SS.FF", Some(-(US_PER_DAY + 86_399 * US_PER_SEC + us))),
            (Kind::DT, format!("99999999 23:59:59.{digits}"), "DD HH24:MI:SS.FF", Some(99_999_999 * US_PER_DAY + 86_399 * US_PER_SEC + us)),
        ];
        for (kind, text, pic, want) in cases {
            st.evaluations += 1;
            st.nontrivial_enum += 1;
            st.class("fraction-carry-chain");
            k += 1;
            if let Err(m) = check_parse(kind, pic, &text, want) {
                st.fail(k, case_of(kind, pic, &text, want), m);
            }
        }
    }
    st.section("fraction_rounding_and_carry", &mut mark);

    // E2: the speller (positive cases with leniencies, and single-component perturbations)
    for kind in KINDS {
        let per = (if ctx.thorough { 30_000_000 } else { 640_000 }) / THREADS as u32;
        let s = pt_run(
            &format!("C05/speller/{}", kind.name()),
            seed,
            per,
            THREADS,
            || (strat::raw(kind), proptest::collection::vec(any::<u32>(), NCHOICES), prop_oneof![3 => Just(0u32), 2 => 1u32..=speller::PERTURBS.len() as u32]),
            |(raw, choices, neg): &(i128, Vec<u32>, u32), st: &mut Stats| {
                let b = speller::build(kind, *raw, choices, *neg);
                if tokenize(&b.picture).is_none() {
                    // a picture the reference rejects is a generator bug, never a library violation
                    st.class("generator-produced-invalid-picture-skipped");
                    return Ok(());
                }
                st.evaluations += 1;
                judge_built(&b)?;
                for t in &b.tags {
                    st.class(t);
                }
                if !b.negative {
                    st.class(if b.expect.is_some() { "positive-case" } else { "positive-spelling-out-of-range" });
                }
                // non-trivial: some leniency used (text differs from the canonical rendering) or negative
                let canonical = b.expect.and_then(|w| tokenize(&b.picture).and_then(|t| render(&Val::new(kind, w), &t))).map(|r| r.text);
                if b.negative || canonical.as_deref() != Some(b.text.as_str()) {
                    st.fps.push(hash_bytes(hash_bytes(kind.index() as u64, b.picture.as_bytes()), b.text.as_bytes()));
                } else {
                    st.class("canonical-text");
                }
                if st.evaluations % 997 == 0 {
                    let key = mix64(seed ^ hash_bytes(5, b.text.as_bytes())) | 1 << 63;
                    st.sample(key, || json!({"type": kind.name(), "picture": b.picture, "text": b.text, "denotes": b.expect.map(|w| show(kind, w)), "tags": b.tags}));
                }
                Ok(())
            },
            |(raw, choices, neg): &(i128, Vec<u32>, u32)| {
                let b = speller::build(kind, *raw, choices, *neg);
                case_of(kind, &b.picture, &b.text, b.expect)
            },
        );
        st.merge(s);
    }
    st.section("speller_generated", &mut mark);

    // short years are completed from the clock (C18), but a short year written with a minus sign
    // denotes no date under any clock: every value x 1..3 digits x four picture shapes x three types
    {
        let mut k = 0u64;
        for n in 1..=3usize {
            let y = "Y".repeat(n);
            for val in 0..10u32.pow(n as u32).min(200) {
                let shapes = [
                    (y.clone(), format!("-{val}")),
                    (format!("{y}-MM-DD"), format!("-{val}-03-05")),
                    (format!("DD.MM.{y}"), format!("05.03.-{val}")),
                    (format!("{y} MON DD HH24:MI:SS"), format!("-{val} Mar 05 10:20:30")),
                    (format!("MM/DD/{y}"), format!("3/5/-{val:0w$}", w = n)),
                ];
                for (si, (pic, text)) in shapes.iter().enumerate() {
                    for kind in [Kind::Date, Kind::Ts, Kind::Ora] {
                        if kind == Kind::Date && si == 3 {
                            continue;
                        }
                        st.evaluations += 1;
                        st.nontrivial_enum += 1;
                        st.class("neg-minus-sign-on-a-short-year");
                        k += 1;
                        if let Err(m) = check_parse(kind, pic, text, None) {
                            st.fail(k, case_of(kind, pic, text, None), m);
                        }
                    }
                }
            }
        }
    }
    st.section("signed_short_years", &mut mark);

    let rep = Report {
        rule: "E1 exhaustive: every (year, day-of-year 0..=367) pair through three pictures; every date through six pictures (padded/unpadded numbers, month and weekday names in random letter case, weekday number, day of year, month name under MM, leading '+', doubled blanks) plus one disagreeing weekday per date; every second of the day in 24-hour and 12-hour+meridian notation in both field orders (also inside pre-1970 / range-end timestamps and Oracle dates); 7-digit fractions through FF7 (all in thorough, strided in quick) and the fraction carry chain of each type. E2: the constructive speller (never parses): type, value, lenient picture (field permutations, separators, name styles, optional weekday / day-of-year fields), per-field spelling choices (padded/unpadded, '+', extra blanks, letter case, month names for MM, 1..9 fraction digits with half-up rounding and carry, omitted trailing time fields) and, for negative cases, exactly one out-of-domain component (24 perturbation kinds). Plus: short years (1..3 digits, every value up to 199) written with a minus sign in five picture shapes must be rejected. Oracle: the value is known by construction (Ok(value) required); a perturbed text must be rejected with any error. Non-trivial = the text differs from the canonical rendering, or a negative case; distinct by (type, picture, text).".into(),
        assumptions: vec![
            "sound-domain restrictions of the generator (blanks only; numbers padded when a digit follows; DAY full name / DY abbreviation; dotted meridian for dotted pictures; intervals keep the leading field first with the sign, omit nothing; a spelled 12-hour field always has its meridian spelled)".into(),
            "an omitted 12-hour field means 12 o'clock (12 AM = 00:00 / 12 PM = 12:00 with a spelled meridian, hour 12 without one)".into(),
            "HH24 combined with a meridian code is not asserted (the statement does not list it)".into(),
        ],
        exhaustive: false,
        extra: Default::default(),
    };
    (st, rep)
}
