//! C01 – day numbers and (year, month, day) form the proleptic Gregorian bijection.

use crate::engine::*;
use crate::model::cal::*;
use serde_json::json;
use sqldatetime::{Date, DateTime, Error};
use std::cmp::Ordering;

const P: &str = "C01";

fn nontrivial_row(r: &Row) -> bool {
    let c = cal();
    r.d as u32 == month_len(r.y, r.m as u32)
        || (r.m == 2 && r.d >= 28)
        || r.y % 100 == 0
        || r.y < 1583
        || r.n - c.first < 7
        || c.last - r.n < 7
}

/// All checks for one in-range day number.
pub fn check_day(n: i32) -> Result<(), String> {
    let c = cal();
    let r = *c.row(n as i64).ok_or("model: not in range")?;
    let res = guarded(|| -> Result<(), String> {
        let d = Date::try_from_days(n).map_err(|e| format!("try_from_days({n}) = Err({e:?}) for in-range day {:04}-{:02}-{:02}", r.y, r.m, r.d))?;
        if d.days() != n {
            return Err(format!("days() = {} after try_from_days({n})", d.days()));
        }
        let (y, m, dd) = d.extract();
        if (y, m, dd) != (r.y, r.m as u32, r.d as u32) {
            return Err(format!("extract({n}) = {:?}, calendar walk says {:04}-{:02}-{:02}", (y, m, dd), r.y, r.m, r.d));
        }
        if d.year() != Some(r.y) || d.month() != Some(r.m as i32) || d.day() != Some(r.d as i32) {
            return Err(format!("accessors year/month/day = {:?}/{:?}/{:?}, expected {}-{}-{}", d.year(), d.month(), d.day(), r.y, r.m, r.d));
        }
        if DateTime::date(&d) != Some(d) || d.hour().is_some() || d.minute().is_some() || d.second().is_some() {
            return Err("DateTime::date/hour/minute/second of a Date are not (Some(self), None, None, None)".into());
        }
        match Date::try_from_ymd(r.y, r.m as u32, r.d as u32) {
            Ok(b) if b.days() == n => {}
            other => return Err(format!("try_from_ymd({}, {}, {}) = {:?}, expected day number {n}", r.y, r.m, r.d, other.map(|x| x.days()))),
        }
        if !Date::is_valid(r.y, r.m as u32, r.d as u32) {
            return Err(format!("is_valid({}, {}, {}) = false for a real date", r.y, r.m, r.d));
        }
        let wd = d.day_of_week() as u32;
        if wd != r.wd as u32 {
            return Err(format!("day_of_week({:04}-{:02}-{:02}) = {wd}, expected {} (1 = Sunday; 1970-01-01 is a Thursday)", r.y, r.m, r.d, r.wd));
        }
        if n > c.first {
            let p = Date::try_from_days(n - 1).map_err(|e| format!("try_from_days({}) = Err({e:?})", n - 1))?;
            let pr = c.row(n as i64 - 1).unwrap();
            let triple_lt = (pr.y, pr.m, pr.d) < (r.y, r.m, r.d);
            if !(p < d) || !(d > p) || p == d || p.cmp(&d) != Ordering::Less || p.partial_cmp(&d) != Some(Ordering::Less) || !triple_lt || !(p <= d) || d <= p || !ord_provided_ok(p, d, Ordering::Less) {
                return Err(format!("ordering of consecutive dates {} and {n} is not that of their triples", n - 1));
            }
        }
        #[allow(clippy::eq_op)]
        if !(d == d) || d.cmp(&d) != Ordering::Equal || !ord_provided_ok(d, d, Ordering::Equal) {
            return Err("a date does not compare equal to itself".into());
        }
        Ok(())
    });
    match res {
        Ok(r) => r,
        Err(p) => Err(format!("day number {n}: {p}")),
    }
}

pub fn check_out_of_range(n: i32) -> Result<(), String> {
    match guarded(|| Date::try_from_days(n)) {
        Ok(Err(Error::DateOutOfRange)) => Ok(()),
        Ok(other) => Err(format!("try_from_days({n}) = {:?} for an out-of-range day number, expected Err(DateOutOfRange)", other.map(|d| d.days()))),
        Err(p) => Err(format!("try_from_days({n}): {p}")),
    }
}

/// `try_from_ymd` / `is_valid` on an arbitrary triple. Returns whether it was accepted.
pub fn check_triple(y: i32, m: u32, d: u32) -> Result<bool, String> {
    let c = cal();
    let expect = c.lookup(y as i64, m as i64, d as i64);
    let got = guarded(|| (Date::try_from_ymd(y, m, d), Date::is_valid(y, m, d))).map_err(|p| format!("try_from_ymd({y}, {m}, {d}): {p}"))?;
    let (res, valid) = got;
    if valid != res.is_ok() {
        return Err(format!("is_valid({y}, {m}, {d}) = {valid} but try_from_ymd is {:?}", res.map(|x| x.days())));
    }
    match (expect, res) {
        (Some(n), Ok(x)) => {
            if x.days() != n {
                return Err(format!("try_from_ymd({y}, {m}, {d}) = day {}, calendar walk says {n}", x.days()));
            }
            Ok(true)
        }
        (Some(n), Err(e)) => Err(format!("try_from_ymd({y}, {m}, {d}) = Err({e:?}) for a real date (day {n})")),
        (None, Ok(x)) => Err(format!("try_from_ymd({y}, {m}, {d}) accepted a triple that names no date in years 1..9999 (day {})", x.days())),
        (None, Err(e)) => {
            let year_bad = !(1..=9999).contains(&y);
            let month_bad = !(1..=12).contains(&m);
            let day_bad = !(1..=31).contains(&d);
            let date_bad = !year_bad && !month_bad && !day_bad; // day within 1..=31 but beyond the month
            let ok = match e {
                Error::DateOutOfRange => year_bad,
                Error::InvalidMonth => month_bad,
                Error::InvalidDay => day_bad,
                Error::InvalidDate => date_bad,
                _ => false,
            };
            if ok {
                Ok(false)
            } else {
                Err(format!(
                    "try_from_ymd({y}, {m}, {d}) = Err({e:?}), which does not match any bad field (year bad={year_bad}, month bad={month_bad}, day bad={day_bad}, not-valid-for-month={date_bad})"
                ))
            }
        }
    }
}

/// The same triple written as text ("YYYY-MM-DD", fields 0..=9999 / 0..=99 / 0..=99) and read by
/// the parse entry point of Date (which = 0), Timestamp (1) or OracleDate (2): accepted exactly
/// when it names a date (then: that date, at midnight), otherwise with an error kind that matches
/// a bad field - the same rule as for `try_from_ymd`.
pub fn check_triple_parsed(which: u8, y: i32, m: u32, d: u32) -> Result<bool, String> {
    use sqldatetime::{OracleDate, Timestamp};
    let c = cal();
    let expect = c.lookup(y as i64, m as i64, d as i64);
    // four pictures: every position of the year relative to month and day
    let (text, pic) = match which / 3 {
        0 => (format!("{y:04}-{m:02}-{d:02}"), "YYYY-MM-DD"),
        1 => (format!("{d}.{m}.{y} 10:20:30"), "DD.MM.YYYY HH24:MI:SS"),
        2 => (format!("{m:02}/{d:02}/{y:04}"), "MM/DD/YYYY"),
        3 => (format!("{d:02} {y:04} {m:02}"), "DD YYYY MM"),
        // a short-year token given all four digits of the year (read as the full year, not
        // completed from the clock): plain, and with the carrying fraction
        5 => (format!("{y:04}-{m:02}-{d:02} 23:59:59.9999996"), "YY-MM-DD HH24:MI:SS.FF9"),
        6 => (format!("{d:02}/{m:02}/{y:04}"), "DD/MM/YY"),
        // a minus sign on the day or the month (before and after the year): such a text names no date
        7 => (format!("-{d:02}-{m:02}-{y:04}"), "DD-MM-YYYY"),
        8 => (format!("{y:04}/{m:02}/-{d:02}"), "YYYY/MM/DD"),
        9 => (format!("-{m:02}.{d:02}.{y:04}"), "MM.DD.YYYY"),
        // a fraction that rounds up to the next second at 23:59:59: a real date carries into the
        // next day, an impossible triple stays impossible
        _ => (format!("{y:04}-{m:02}-{d:02} 23:59:59.9999996"), "YYYY-MM-DD HH24:MI:SS.FF9"),
    };
    let extra = match which / 3 {
        1 => 37_230_000_000i128,
        4 | 5 => 86_400_000_000,
        _ => 0,
    };
    let short_year = which / 3 == 5 || which / 3 == 6;
    let expect = if which / 3 >= 7 { None } else { expect };
    let signed_field = which / 3 >= 7;
    let carrying = which / 3 == 4 || which / 3 == 5;
    let name = ["Date", "Timestamp", "OracleDate"][which as usize % 3];
    let res: Result<i128, Error> = guarded(|| match which % 3 {
        0 => Date::parse(&text, pic).map(|x| x.days() as i128 * 86_400_000_000 + extra),
        1 => Timestamp::parse(&text, pic).map(|x| x.usecs() as i128),
        _ => OracleDate::parse(&text, pic).map(|x| x.usecs() as i128),
    })
    .map_err(|p| format!("{name}::parse({text:?}, {pic:?}): {p}"))?;
    if carrying && which % 3 == 2 {
        // the Oracle-style date has no fraction field: any error
        return match res {
            Err(_) => Ok(false),
            Ok(x) => Err(format!("OracleDate::parse({text:?}, {pic:?}) = Ok({x}) although the picture has a fraction field")),
        };
    }
    if carrying && expect == Some(c.last) {
        // the carry leaves the range: any error
        return match res {
            Err(_) => Ok(false),
            Ok(x) => Err(format!("{name}::parse({text:?}, {pic:?}) = Ok({x}): the rounded-up second lies after the maximum")),
        };
    }
    if which % 3 == 0 && (which / 3 == 1 || carrying) {
        // a time-bearing picture does not apply to the plain date: any error
        return match res {
            Err(_) => Ok(false),
            Ok(x) => Err(format!("Date::parse({text:?}, {pic:?}) = Ok({x}) although the picture has time fields")),
        };
    }
    match (expect, res) {
        (Some(n), Ok(x)) => {
            if x != n as i128 * 86_400_000_000 + extra {
                return Err(format!("{name}::parse({text:?}, {pic:?}) = {x} us, the calendar walk says day {n}"));
            }
            Ok(true)
        }
        // reading four digits under a two-letter year token is a latitude of the parser, not part of
        // the statement: a rejection is not judged, an accepted value is
        (Some(_), Err(_)) if short_year => Ok(false),
        (None, Err(_)) if short_year || signed_field => Ok(false),
        (Some(n), Err(e)) => Err(format!("{name}::parse({text:?}, {pic:?}) = Err({e:?}) for a real date (day {n})")),
        (None, Ok(x)) => Err(format!("{name}::parse({text:?}, {pic:?}) accepted a triple that names no date in years 1..9999 ({x} us)")),
        (None, Err(e)) => {
            let year_bad = !(1..=9999).contains(&y);
            let month_bad = !(1..=12).contains(&m);
            let day_bad = !(1..=31).contains(&d);
            let date_bad = !year_bad && !month_bad && !day_bad;
            let ok = match e {
                Error::DateOutOfRange => year_bad,
                Error::InvalidMonth => month_bad,
                Error::InvalidDay => day_bad,
                Error::InvalidDate => date_bad,
                _ => false,
            };
            if ok {
                Ok(false)
            } else {
                Err(format!("{name}::parse({text:?}, {pic:?}) = Err({e:?}), which does not match any bad field of the triple (year bad={year_bad}, month bad={month_bad}, day bad={day_bad}, not-valid-for-month={date_bad})"))
            }
        }
    }
}

pub fn eval(case: &Case) -> Verdict {
    let r = match case.kind.as_str() {
        "day" => check_day(case.i[0] as i32),
        "out_of_range" => check_out_of_range(case.i[0] as i32),
        "triple" => check_triple(case.i[0] as i32, case.i[1] as u32, case.i[2] as u32).map(|_| ()),
        "triple_parsed" => check_triple_parsed(case.i[0] as u8, case.i[1] as i32, case.i[2] as u32, case.i[3] as u32).map(|_| ()),
        k => Err(format!("unknown case kind {k}")),
    };
    match r {
        Ok(()) => Verdict::Pass,
        Err(m) => Verdict::Fail(m),
    }
}

pub fn years_grid() -> Vec<i32> {
    let mut v: Vec<i32> = (-1..=10001).collect();
    v.extend_from_slice(&[i32::MIN, i32::MIN + 1, -10000, 10002, 65535, 65536, 65537, i32::MAX - 1, i32::MAX]);
    v
}
pub fn months_grid_wide() -> Vec<u32> {
    let mut v: Vec<u32> = (0..=70).collect();
    v.extend_from_slice(&[255, 256, 257, 258, 65535, 65536, 65537, u32::MAX - 1, u32::MAX]);
    v
}
pub fn days_grid_wide() -> Vec<u32> {
    let mut v: Vec<u32> = (0..=100).collect();
    v.extend_from_slice(&[255, 256, 257, 284, 285, 65535, 65536, 65537, u32::MAX - 1, u32::MAX]);
    v
}
pub fn months_grid() -> Vec<u32> {
    let mut v: Vec<u32> = (0..=14).collect();
    v.extend_from_slice(&[255, 256, 257, 258, u32::MAX - 1, u32::MAX]);
    v
}
pub fn days_grid() -> Vec<u32> {
    let mut v: Vec<u32> = (0..=33).collect();
    v.extend_from_slice(&[255, 256, 257, 284, 285, u32::MAX - 1, u32::MAX]);
    v
}

pub fn run(ctx: &Ctx) -> (Stats, Report) {
    let c = cal();
    let mut st = Stats::new();
    let mut mark = (0, 0);
    run_replays(P, &mut st, &eval);
    st.section("replays", &mut mark);

    // A: every in-range day number
    let seed = ctx.seed;
    let a = par_sweep(c.len() as u64, 1 << 15, |range, st| {
        for i in range {
            let r = &c.rows[i as usize];
            st.evaluations += 1;
            if nontrivial_row(r) {
                st.nontrivial_enum += 1;
                if r.d as u32 == month_len(r.y, r.m as u32) {
                    st.class("month-end");
                }
                if r.m == 2 && r.d == 29 {
                    st.class("29-february");
                }
                if r.y % 100 == 0 {
                    st.class("century-year");
                }
                if r.y < 1583 {
                    st.class("before-1583");
                }
            }
            if r.n < 0 {
                st.class("before-1970");
            }
            if let Err(m) = check_day(r.n) {
                st.fail(i, Case::new(P, "day", vec![r.n as i128], vec![]), m);
                return;
            }
            let key = mix64(seed ^ i.wrapping_mul(0x9e37));
            if key < st.sample_threshold() && nontrivial_row(r) {
                st.sample(key, || json!({"kind": "day", "n": r.n, "ymd": format!("{:04}-{:02}-{:02}", r.y, r.m, r.d), "weekday(1=Sun)": r.wd}));
            }
        }
    });
    st.merge(a);
    st.exhaustive_sections.push("in-range day numbers (all 3,652,059)".into());
    st.section("in_range_days", &mut mark);

    // B: out-of-range day numbers
    let mut outs: Vec<i32> = vec![];
    for k in 1..=400 {
        outs.push(c.first - k);
        outs.push(c.last + k);
    }
    for k in 1..=2000i64 {
        let v = k * 1_000_000;
        if v > c.last as i64 {
            outs.push(v as i32);
        }
        outs.push((-v) as i32);
    }
    outs.extend_from_slice(&[i32::MIN, i32::MIN + 1, i32::MAX - 1, i32::MAX]);
    for (k, n) in outs.iter().enumerate() {
        st.evaluations += 1;
        st.nontrivial_enum += 1;
        st.class("out-of-range-day-number");
        if let Err(m) = check_out_of_range(*n) {
            st.fail(k as u64, Case::new(P, "out_of_range", vec![*n as i128], vec![]), m);
            break;
        }
    }
    st.sample(1, || json!({"kind": "out_of_range", "n": c.first - 1}));
    st.sample(2, || json!({"kind": "out_of_range", "n": c.last + 1}));
    st.section("out_of_range_days", &mut mark);

    // B2: call-order histories: every day number again in descending and in scrambled order
    // (anything a conversion leaves behind meets an earlier / unrelated date next)
    let g = par_sweep(c.len() as u64, 1 << 12, |range, st| {
        let (lo, len) = (range.start, range.end - range.start);
        for pass in 0..2u64 {
            for k in 0..len {
                let i = if pass == 0 { range.end - 1 - k } else { lo + (k * 2731 + 17) % len };
                st.evaluations += 1;
                if let Err(m) = check_day(c.rows[i as usize].n) {
                    st.fail(i, Case::new(P, "day", vec![c.rows[i as usize].n as i128], vec![]), format!("{m} [in a {} sweep: depends on earlier calls if the single call passes]", if pass == 0 { "descending" } else { "scrambled" }));
                    return;
                }
            }
        }
    });
    st.merge(g);
    st.exhaustive_sections.push("every day number again in descending and in scrambled order".into());
    st.section("call_order_histories", &mut mark);

    // C: the triple grid
    let ys = years_grid();
    let ms = if ctx.thorough { months_grid_wide() } else { months_grid() };
    let ds = if ctx.thorough { days_grid_wide() } else { days_grid() };
    let g = par_sweep(ys.len() as u64, 64, |range, st| {
        for yi in range {
            let y = ys[yi as usize];
            for &m in &ms {
                for &d in &ds {
                    st.evaluations += 1;
                    match check_triple(y, m, d) {
                        Ok(true) => st.class("triple-accepted"),
                        Ok(false) => {
                            st.class("triple-rejected");
                            st.nontrivial_enum += 1;
                            let key = mix64(seed ^ hash_ints(7, &[y as i128, m as i128, d as i128]));
                            if key < st.sample_threshold() && (1..=9999).contains(&y) {
                                st.sample(key, || json!({"kind": "triple", "ymd": [y, m, d], "accepted": false}));
                            }
                        }
                        Err(msg) => {
                            st.fail(yi, Case::new(P, "triple", vec![y as i128, m as i128, d as i128], vec![]), msg);
                            return;
                        }
                    }
                }
            }
        }
    });
    st.merge(g);
    st.exhaustive_sections.push(format!("triple grid {} years x {} months x {} days", ys.len(), ms.len(), ds.len()));
    st.section("triple_grid", &mut mark);

    // D: bit-pattern months and days (2^b + small), which a shift, mask or narrowing cast would
    // fold onto a valid field, on a reduced set of years
    let ys2: Vec<i32> = vec![-1, 0, 1, 4, 100, 1582, 1900, 1970, 2000, 2023, 2024, 9999, 10000, i32::MIN, i32::MAX, 65536 + 2000, (1 << 27) + 2000];
    let mut ms2: Vec<u32> = vec![];
    let mut ds2: Vec<u32> = vec![];
    for b in 3..32u32 {
        for m in 0..=13u32 {
            ms2.push((1u32 << b).wrapping_add(m));
            ms2.push((1u32 << b).wrapping_sub(m));
            ms2.push(m.wrapping_mul(1 << b));
        }
        for d in 0..=32u32 {
            ds2.push((1u32 << b).wrapping_add(d));
            ds2.push((1u32 << b).wrapping_sub(d));
        }
    }
    ms2.sort();
    ms2.dedup();
    ds2.sort();
    ds2.dedup();
    let small_m: Vec<u32> = (0..=14).collect();
    let small_d: Vec<u32> = (0..=33).collect();
    let combos: Vec<(&Vec<u32>, &Vec<u32>)> = vec![(&ms2, &small_d), (&small_m, &ds2)];
    for (mm, dd) in combos {
        let g = par_sweep(ys2.len() as u64, 1, |range, st| {
            for yi in range {
                let y = ys2[yi as usize];
                for &m in mm.iter() {
                    for &d in dd.iter() {
                        st.evaluations += 1;
                        match check_triple(y, m, d) {
                            Ok(true) => st.class("triple-accepted"),
                            Ok(false) => {
                                st.class("bit-pattern-triple-rejected");
                                st.nontrivial_enum += 1;
                            }
                            Err(msg) => {
                                st.fail(yi, Case::new(P, "triple", vec![y as i128, m as i128, d as i128], vec![]), msg);
                                return;
                            }
                        }
                    }
                }
            }
        });
        st.merge(g);
    }
    st.section("bit_pattern_triples", &mut mark);

    // E: the triple written as text and read through the parse entry points of the three
    // date-bearing types (their validators are separate code): years 0..=9999 x months 0..=14,
    // 99 x days 0..=33, 99
    let pm: Vec<u32> = if ctx.thorough { (0..=99).collect() } else { (0..=14).chain([20, 99]).collect() };
    let pd: Vec<u32> = if ctx.thorough { (0..=99).collect() } else { (0..=33).chain([40, 99]).collect() };
    let all_entry_points = ctx.thorough;
    let g = par_sweep(10_000, 16, |range, st| {
        for y in range {
            let y = y as i32;
            for &m in &pm {
                for &d in &pd {
                    // ten pictures (year first / last / in the middle, one whose fraction carries out of 23:59:59, two with a two-letter year token given four digits, three with a minus sign on the day or month) x three types, rotated; both carrying pictures through Timestamp for every triple
                    let rot = [((y as u32 + m + d) % 30) as u8, ((y as u32 + m + d + 13) % 30) as u8, 13, 16];
                    let whichs: &[u8] = if all_entry_points { &[0, 1, 2, 3, 4, 5, 6, 7, 8, 9, 10, 11, 12, 13, 14, 15, 16, 17, 18, 19, 20, 21, 22, 23, 24, 25, 26, 27, 28, 29] } else { &rot };
                    for &which in whichs {
                        st.evaluations += 1;
                        match check_triple_parsed(which, y, m, d) {
                            Ok(true) => st.class("parsed-triple-accepted"),
                            Ok(false) => {
                                st.class("parsed-triple-rejected");
                                st.nontrivial_enum += 1;
                            }
                            Err(msg) => {
                                st.fail(y as u64, Case::new(P, "triple_parsed", vec![which as i128, y as i128, m as i128, d as i128], vec![]), msg);
                                return;
                            }
                        }
                    }
                }
            }
        }
    });
    st.merge(g);
    st.exhaustive_sections.push(format!("triples as text through Date / Timestamp / OracleDate parse: years 0..=9999 x {} months x {} days", pm.len(), pd.len()));
    st.section("triples_through_parse", &mut mark);

    let rep = Report {
        rule: "Exhaustive enumeration (both tiers): every in-range day number (Date::try_from_days/extract/accessors/try_from_ymd/is_valid/day_of_week/ordering vs. an independently *walked* calendar), out-of-range day numbers, and the (year, month, day) grid years -1..=10001+extremes x months 0..=14+extremes x days 0..=33+extremes; bit-pattern months and days; the same triples as text through the parse entry points of Date, Timestamp and OracleDate (separate validators) with the same acceptance and error-kind rule. Non-trivial = month end, 28/29 Feb, century year, before 1583, within 7 days of a range end, an out-of-range number, or a rejected triple; all distinct by enumeration.".into(),
        assumptions: vec![
            "the reference calendar is produced by stepping one day at a time with the month lengths and leap rule of the statement, anchored at 1970-01-01 = day 0 = Thursday".into(),
            "for a triple with several bad fields any error kind that matches one of the bad fields is accepted (the statement does not order them)".into(),
        ],
        exhaustive: true,
        extra: Default::default(),
    };
    (st, rep)
}
