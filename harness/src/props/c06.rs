//! C06 – format then parse with the same lossless picture returns the original value.

use crate::adapter::{self as ad, FmtOut};
use crate::engine::*;
use crate::gen::{self, CTok};
use crate::model::cal::*;
use crate::model::text::*;
use crate::speller::Ch;
use crate::strat;
use proptest::prelude::*;
use serde_json::json;

const P: &str = "C06";
const STYLES: [Style; 4] = [Style::Upper, Style::Capital, Style::Lower, Style::Unspec];
const SEPS: [&str; 14] = ["-", " ", "", "/", ":", ".", ",", ";", "\\", "T", "  ", "   ", " / ", ", "];

fn shuffle<T>(v: &mut Vec<T>, ch: &mut Ch) {
    for i in 0..v.len() {
        let j = i + ch.pick(v.len() - i);
        v.swap(i, j);
    }
}

/// A picture that carries all of the value's information unambiguously.
pub fn lossless_picture(kind: Kind, raw: i128, choices: &[u32]) -> (Vec<CTok>, Vec<&'static str>) {
    let mut ch = Ch::new(choices);
    let mut tags = vec![];
    let f = Val::new(kind, raw).fields();
    let mut vals: Vec<Tok> = vec![];
    let mut date: Vec<Tok> = vec![];
    if kind.has_date() {
        date.push(Tok::Year(4));
        let with_md = match ch.pick(3) {
            1 => {
                date.push(Tok::DDD);
                tags.push("day-of-year-instead-of-month-day");
                // optionally a redundant, consistent day of month or month next to the day of year
                match ch.pick(4) {
                    1 => {
                        date.push(Tok::DD);
                        tags.push("extra-consistent-day-of-month");
                    }
                    2 => {
                        date.push(Tok::MM);
                        tags.push("extra-consistent-month");
                    }
                    _ => {}
                }
                false
            }
            _ => true,
        };
        if with_md {
            date.push(match ch.pick(3) {
                0 => Tok::MM,
                1 => Tok::Mon(STYLES[ch.pick(4)]),
                _ => Tok::Month(STYLES[ch.pick(4)]),
            });
            date.push(Tok::DD);
            if ch.flag(1, 4) {
                date.push(Tok::DDD);
                tags.push("extra-consistent-day-of-year");
            }
        }
        match ch.pick(6) {
            1 => date.push(Tok::Day(STYLES[ch.pick(4)])),
            2 => date.push(Tok::Dy(STYLES[ch.pick(4)])),
            3 => date.push(Tok::D),
            _ => {}
        }
        if date.iter().any(|t| matches!(t, Tok::Day(_) | Tok::Dy(_) | Tok::D)) {
            tags.push("extra-consistent-weekday");
        }
        if date.iter().any(|t| matches!(t, Tok::Mon(_) | Tok::Month(_) | Tok::Day(_) | Tok::Dy(_))) {
            tags.push("name-field");
        }
    }
    let mut time: Vec<Tok> = vec![];
    if matches!(kind, Kind::Time | Kind::Ts | Kind::Ora) {
        if ch.flag(1, 2) {
            time.push(Tok::HH12);
            time.push(Tok::Mer { dotted: ch.flag(1, 2), case: [MerCase::Upper, MerCase::Lower, MerCase::Mixed][ch.pick(3)] });
            tags.push("12-hour-clock");
        } else {
            time.push(Tok::HH24);
        }
        time.push(Tok::MI);
        time.push(Tok::SS);
        if kind != Kind::Ora {
            push_fraction(&mut time, f.usec, &mut ch);
        }
    }
    match kind {
        Kind::YM => {
            vals.push(Tok::Year(1 + ch.pick(4) as u8));
            vals.push(Tok::MM);
        }
        Kind::DT => {
            vals.push(Tok::DD);
            let mut rest = vec![Tok::HH24, Tok::MI, Tok::SS];
            push_fraction(&mut rest, f.usec, &mut ch);
            if ch.flag(1, 2) {
                shuffle(&mut rest, &mut ch);
                tags.push("non-canonical-order");
            }
            vals.extend(rest);
        }
        _ => {
            let order = ch.pick(4);
            match order {
                0 => {
                    vals.extend(date);
                    vals.extend(time);
                }
                1 => {
                    shuffle(&mut date, &mut ch);
                    shuffle(&mut time, &mut ch);
                    vals.extend(date);
                    vals.extend(time);
                    tags.push("non-canonical-order");
                }
                2 => {
                    shuffle(&mut date, &mut ch);
                    shuffle(&mut time, &mut ch);
                    vals.extend(time);
                    vals.extend(date);
                    tags.push("non-canonical-order");
                }
                _ => {
                    vals.extend(date);
                    vals.extend(time);
                    shuffle(&mut vals, &mut ch);
                    tags.push("non-canonical-order");
                }
            }
        }
    }
    let alpha = |t: &Tok| matches!(t, Tok::Mon(_) | Tok::Month(_) | Tok::Day(_) | Tok::Dy(_) | Tok::Mer { .. });
    let mut out: Vec<CTok> = vec![];
    for (k, t) in vals.iter().enumerate() {
        if k > 0 {
            let prev = &vals[k - 1];
            let mut s = SEPS[ch.pick(SEPS.len())];
            let variable = (kind.is_interval() && k == 1) || matches!(prev, Tok::FF(None));
            if (s.is_empty() || s == "T") && ((alpha(prev) && alpha(t)) || variable) {
                s = if variable { "," } else { " " };
            }
            if s.is_empty() {
                tags.push("empty-separator");
            }
            for st in tokenize(s).unwrap() {
                out.push((st, 0));
            }
        }
        out.push((t.clone(), ch.raw()));
    }
    if ch.flag(1, 8) {
        out.push((Tok::Blank(1 + ch.pick(3)), 0));
    }
    // the interval sign is written before everything, so the leading year / day field must
    // come first for the text to read back (the sign belongs to that field)
    if ch.flag(1, 8) && !kind.is_interval() {
        out.insert(0, (Tok::Blank(1 + ch.pick(3)), 0));
    }
    (gen::fit(gen::repair(out, b'/'), MAX_TOKENS), tags)
}

fn push_fraction(v: &mut Vec<Tok>, usec: u32, ch: &mut Ch) {
    // at least six digits when needed; fewer only when the value has no more
    let mut min_p = 6;
    while min_p > 0 && usec % 10u32.pow(6 - min_p as u32 + 1) == 0 {
        min_p -= 1;
    }
    // min_p = smallest precision that loses nothing (0 = none needed)
    let opts: Vec<Option<Tok>> = {
        let mut o: Vec<Option<Tok>> = vec![Some(Tok::FF(None))];
        for p in min_p.max(1)..=9u8 {
            o.push(Some(Tok::FF(Some(p))));
        }
        if min_p == 0 {
            o.push(None);
        }
        o
    };
    if let Some(t) = opts[ch.pick(opts.len())].clone() {
        v.push(t);
    }
}

/// format -> reference text -> parse -> same value -> format again gives the same bytes.
pub fn check_roundtrip(kind: Kind, raw: i128, pic: &str) -> Result<(), String> {
    // a lossless picture names the full date, so the result must not depend on the clock: the
    // current local date is varied through the hook, derived from the case itself
    let c = cal();
    let ck = &c.rows[(mix64(raw as u64 ^ hash_bytes(6, pic.as_bytes())) % c.len() as u64) as usize];
    ad::clock_set(ck.y, ck.m as u32, ck.d as u32, 1, 2, 3, 4);
    let r = check_roundtrip_inner(kind, raw, pic);
    ad::clock_clear();
    r.map_err(|m| format!("{m} [current local date injected: {:04}-{:02}-{:02}]", ck.y, ck.m, ck.d))
}

fn check_roundtrip_inner(kind: Kind, raw: i128, pic: &str) -> Result<(), String> {
    let v = Val::new(kind, raw);
    let lv = ad::to_lib(&v).map_err(|e| format!("value rejected: {e:?}"))?;
    let text = match ad::format_lazy(&lv, pic).map_err(|p| format!("{}::format({raw}, {pic:?}): {p}", kind.name()))? {
        FmtOut::Text(t) => t,
        other => return Err(format!("{} {raw} does not format with the lossless picture {pic:?}: {other:?}", kind.name())),
    };
    let toks = tokenize(pic).ok_or_else(|| format!("harness: generated picture {pic:?} is not valid"))?;
    let want = render(&v, &toks).ok_or_else(|| format!("harness: picture {pic:?} not applicable to {}", kind.name()))?;
    if !want.matches(&text) {
        return Err(format!("{} {raw} formatted with {pic:?} gives {text:?}, the reference rendering is {:?}", kind.name(), want.text));
    }
    let back = ad::parse_type(kind, &text, pic).map_err(|p| format!("{}::parse({text:?}, {pic:?}): {p}", kind.name()))?;
    match back {
        Ok(b) if b.raw == raw => {
            let lb = ad::to_lib(&b).map_err(|e| format!("parsed value rejected: {e:?}"))?;
            match ad::format_direct(&lb, pic).map_err(|p| format!("re-formatting: {p}"))? {
                FmtOut::Text(t2) if t2 == text => Ok(()),
                other => Err(format!("formatting the parse result again gives {other:?}, expected {text:?}")),
            }
        }
        Ok(b) => Err(format!(
            "{}::parse(format(v, p), p) != v: v = {raw} ({}), picture {pic:?}, text {text:?}, parsed back {} ({})",
            kind.name(),
            super::c05::show(kind, raw),
            b.raw,
            super::c05::show(kind, b.raw)
        )),
        Err(e) => Err(format!("{}::parse({text:?}, {pic:?}) = Err({e:?}) for the text the library itself formatted from {raw} ({})", kind.name(), super::c05::show(kind, raw))),
    }
}

/// Concurrent histories: every thread round-trips its own values (see `stress_value`) twice
/// through one of two fixed lossless pictures of the value's type.
pub fn check_concurrent(sd: u64, threads: usize, iters: u64) -> Result<u64, String> {
    const PICS: [[&str; 2]; 6] = [
        ["YYYY-MM-DD", "Day, DD Month YYYY DDD"],
        ["HH24:MI:SS.FF", "HH12:MI:SS.FF6 AM"],
        ["YYYY-MM-DD HH24:MI:SS.FF", "DY Mon DD HH:MI:SS.FF9 P.M. YYYY"],
        ["YYYY-MM-DD HH24:MI:SS", "Month DD, YYYY HH12:MI:SS A.M."],
        ["YYYY-MM", "YYYY MM"],
        ["DD HH24:MI:SS.FF", "DD HH24 MI SS FF7"],
    ];
    stress(sd, threads, iters, |t, sm| {
        let (ki, raw) = stress_value(sd, t, sm);
        let pic = PICS[ki][sm.below(2) as usize];
        check_roundtrip(KINDS[ki], raw, pic)?;
        check_roundtrip(KINDS[ki], raw, pic)
    })
}

pub fn eval(case: &Case) -> Verdict {
    if case.kind == "concurrent" {
        // several repetitions: the interleaving is not pinned by the replay file
        for rep in 0..8u64 {
            if let Err(m) = check_concurrent(case.i[0] as u64 ^ rep, case.i[1] as usize, case.i[2] as u64) {
                return Verdict::Fail(m);
            }
        }
        return Verdict::Pass;
    }
    let r = match case.kind.as_str() {
        "roundtrip" => check_roundtrip(Kind::from_index(case.i[0] as usize), case.i[1], &case.s[0]),
        k => Err(format!("unknown case kind {k}")),
    };
    match r {
        Ok(()) => Verdict::Pass,
        Err(m) => Verdict::Fail(m),
    }
}

fn case_of(kind: Kind, raw: i128, pic: &str) -> Case {
    Case::new(P, "roundtrip", vec![kind.index() as i128, raw], vec![pic.to_string()])
}

fn choices_from(seed: u64, n: usize) -> Vec<u32> {
    let mut sm = SplitMix(seed);
    (0..n).map(|_| sm.next() as u32).collect()
}

pub fn run(ctx: &Ctx) -> (Stats, Report) {
    let c = cal();
    let mut st = Stats::new();
    let mut mark = (0, 0);
    run_replays(P, &mut st, &eval);
    st.section("replays", &mut mark);
    let seed = ctx.seed;

    // E1: all dates, 8 fresh pictures per 4096-date chunk (pictures drawn from the seed)
    let npic = if ctx.thorough { 48 } else { 8 };
    let s = par_sweep(c.len() as u64, 4096, |range, st| {
        let chunk = range.start / 4096;
        let pics: Vec<(String, Vec<&'static str>)> = (0..npic)
            .map(|k| {
                // the picture does not depend on the date (no fraction), so one per chunk works
                let (t, tags) = lossless_picture(Kind::Date, 0, &choices_from(seed ^ mix64(chunk * 64 + k), 64));
                (gen::spell_all(&t), tags)
            })
            .collect();
        for i in range {
            let r = &c.rows[i as usize];
            for (pic, tags) in &pics {
                st.evaluations += 1;
                if !tags.is_empty() {
                    st.nontrivial_enum += 1;
                }
                if let Err(m) = check_roundtrip(Kind::Date, r.n as i128, pic) {
                    st.fail(i, case_of(Kind::Date, r.n as i128, pic), m);
                    return;
                }
            }
            let key = mix64(seed ^ mix64(i ^ 0x66));
            if key < st.sample_threshold() {
                st.sample(key, || json!({"type": "Date", "value": format!("{:04}-{:02}-{:02}", r.y, r.m, r.d), "picture": pics[0].0, "tags": pics[0].1}));
            }
        }
    });
    st.merge(s);
    st.exhaustive_sections.push(format!("all dates x {npic} generated lossless pictures per 4096-date chunk"));
    st.section("all_dates_x_generated_pictures", &mut mark);

    // E1: all seconds of the day x generated pictures (Time, and Timestamp / OracleDate on four dates)
    let s = par_sweep(86_400, 64, |range, st| {
        for sec in range {
            let t = sec as i128 * US_PER_SEC;
            for k in 0..4u64 {
                let us = [0i128, 1, 500_000, 999_999][k as usize];
                let raw = t + us;
                let (toks, tags) = lossless_picture(Kind::Time, raw, &choices_from(seed ^ mix64(sec * 8 + k), 64));
                let pic = gen::spell_all(&toks);
                st.evaluations += 1;
                if !tags.is_empty() {
                    st.nontrivial_enum += 1;
                }
                if let Err(m) = check_roundtrip(Kind::Time, raw, &pic) {
                    st.fail(sec, case_of(Kind::Time, raw, &pic), m);
                    return;
                }
                let d = [c.first as i128, -1, 0, c.last as i128][k as usize];
                for kind in [Kind::Ts, Kind::Ora] {
                    let r2 = if kind == Kind::Ora { d * US_PER_DAY + t } else { d * US_PER_DAY + raw };
                    let (toks, tags) = lossless_picture(kind, r2, &choices_from(seed ^ mix64(sec * 8 + k + 0x1000000), 64));
                    let pic = gen::spell_all(&toks);
                    st.evaluations += 1;
                    if !tags.is_empty() {
                        st.nontrivial_enum += 1;
                    }
                    if let Err(m) = check_roundtrip(kind, r2, &pic) {
                        st.fail(sec, case_of(kind, r2, &pic), m);
                        return;
                    }
                }
            }
        }
    });
    st.merge(s);
    st.exhaustive_sections.push("all seconds of the day x generated pictures on Time, Timestamp, OracleDate".into());
    st.section("all_seconds_x_generated_pictures", &mut mark);

    // E2: proptest, all six types
    for kind in KINDS {
        let per = (if ctx.thorough { 12_000_000 } else { 320_000 }) / THREADS as u32;
        let s = pt_run(
            &format!("C06/{}", kind.name()),
            seed,
            per,
            THREADS,
            || (strat::raw(kind), proptest::collection::vec(any::<u32>(), 64)),
            |(raw, choices): &(i128, Vec<u32>), st: &mut Stats| {
                let (toks, tags) = lossless_picture(kind, *raw, choices);
                let pic = gen::spell_all(&toks);
                if tokenize(&pic).is_none() {
                    // a picture the reference rejects is a generator bug, never a library violation
                    st.class("generator-produced-invalid-picture-skipped");
                    return Ok(());
                }
                st.evaluations += 1;
                check_roundtrip(kind, *raw, &pic)?;
                for t in &tags {
                    st.class(t);
                }
                let nvals = toks.iter().filter(|t| t.0.is_value_bearing()).count();
                if nvals >= 2 && !tags.is_empty() {
                    st.fps.push(hash_bytes(hash_ints(kind.index() as u64, &[*raw]), pic.as_bytes()));
                } else {
                    st.class("canonical-picture");
                }
                if st.evaluations % 499 == 0 {
                    let key = mix64(seed ^ hash_bytes(*raw as u64, pic.as_bytes()));
                    st.sample(key, || json!({"type": kind.name(), "value": super::c05::show(kind, *raw), "picture": pic, "tags": tags}));
                }
                Ok(())
            },
            |(raw, choices): &(i128, Vec<u32>)| {
                let (toks, _) = lossless_picture(kind, *raw, choices);
                case_of(kind, *raw, &gen::spell_all(&toks))
            },
        );
        st.merge(s);
    }
    st.section("generated_values_x_pictures", &mut mark);

    // E1b: boundary / binary-boundary pool values of every type x fixed rich pictures (all the
    // consistent redundant fields at once) + one generated picture per value
    {
        const RICH: [&[&str]; 6] = [
            &["Day, DD Month YYYY DDD", "YYYY-MM-DD D", "DDD YYYY Dy MON"],
            &["HH24:MI:SS.FF", "HH12:MI:SS.FF6 AM", "FF9 SS MI HH24"],
            &["DAY, YYYY-MM-DD HH24:MI:SS.FF6", "Dy Mon DD HH:MI:SS.FF9 P.M. YYYY DDD", "YYYY DDD HH24 MI SS FF7 D"],
            &["DAY, YYYY-MM-DD HH24:MI:SS", "Dy Month DD, YYYY HH12:MI:SS A.M. DDD", "YYYY DDD HH24 MI SS D"],
            &["YYYY-MM", "YYYY MM"],
            &["DD HH24:MI:SS.FF", "DD HH24 MI SS FF7"],
        ];
        for kind in KINDS {
            let mut vals: Vec<i128> = crate::pools::pool(kind, seed, if ctx.thorough { 40_000 } else { 3000 }).into_iter().map(|v| v.raw).collect();
            if matches!(kind, Kind::Ts | Kind::Ora) {
                vals.extend(crate::pools::ts_binary_time_instants().into_iter().map(|x| if kind == Kind::Ora { x.div_euclid(US_PER_SEC) * US_PER_SEC } else { x }));
            }
            let vref = &vals;
            let s = par_sweep(vals.len() as u64, 64, |range, st| {
                for k in range {
                    let raw = vref[k as usize];
                    let (toks, _) = lossless_picture(kind, raw, &choices_from(seed ^ mix64(k ^ 0xe1b), 64));
                    let gen_pic = gen::spell_all(&toks);
                    for pic in RICH[kind.index()].iter().copied().chain(std::iter::once(gen_pic.as_str())) {
                        if tokenize(pic).is_none() {
                            continue;
                        }
                        st.evaluations += 1;
                        st.fps.push(hash_bytes(hash_ints(kind.index() as u64 + 0x60, &[raw]), pic.as_bytes()));
                        if let Err(m) = check_roundtrip(kind, raw, pic) {
                            st.fail(k, case_of(kind, raw, pic), m);
                            return;
                        }
                    }
                }
            });
            st.merge(s);
        }
    }
    st.section("pool_values_x_rich_pictures", &mut mark);

    // E1c: every name / meridian token followed by every one- and two-token separator (punctuation
    // and blank in both orders, two punctuation marks) and then another field, over dates that
    // cover every month and weekday
    {
        let puncts = ["-", ":", "/", ".", ",", ";", "\\"];
        let mut seps: Vec<String> = vec![" ".into(), "  ".into()];
        for p in puncts {
            seps.push(p.to_string());
            seps.push(format!("{p} "));
            seps.push(format!(" {p}"));
            seps.push(format!(" {p} "));
            for q in [".", ",", "-"] {
                seps.push(format!("{p}{q}"));
            }
        }
        let heads = ["DAY", "Day", "day", "DY", "Dy", "dy", "MON", "Mon", "mon", "MONTH", "Month", "month"];
        let mut pics: Vec<String> = vec![];
        for h in heads {
            for sp in &seps {
                let is_month = h.to_ascii_uppercase().starts_with("MON");
                // the rest of a lossless picture after the name token
                pics.push(if is_month { format!("{h}{sp}DD YYYY HH24:MI:SS") } else { format!("{h}{sp}DD.MM.YYYY HH24:MI:SS") });
                pics.push(if is_month { format!("YYYY DD {h}{sp}HH24:MI:SS") } else { format!("YYYY-MM-DD {h}{sp}HH24:MI:SS") });
            }
        }
        for sp in &seps {
            for mer in ["AM", "p.m."] {
                pics.push(format!("YYYY-MM-DD HH:MI:SS {mer}{sp}FF6"));
            }
        }
        let c = cal();
        let base = c.lookup(2023, 12, 28).unwrap() as i128;
        let days: Vec<i128> = (0..7).map(|k| base + k).chain((1..=12).map(|m| c.lookup(1969, m, 14 + m).unwrap() as i128)).collect();
        let (pref, dref) = (&pics, &days);
        let s = par_sweep(pics.len() as u64, 4, |range, st| {
            for k in range {
                let pic = &pref[k as usize];
                if tokenize(pic).is_none() {
                    continue;
                }
                for (j, d) in dref.iter().enumerate() {
                    let raw = d * US_PER_DAY + [0i128, 45_296_000_000, 86_399_000_000][j % 3];
                    for kind in [Kind::Ts, Kind::Ora] {
                        if kind == Kind::Ora && pic.contains("FF") {
                            continue;
                        }
                        st.evaluations += 1;
                        st.fps.push(hash_bytes(hash_ints(kind.index() as u64 + 0x61, &[raw]), pic.as_bytes()));
                        if let Err(m) = check_roundtrip(kind, raw, pic) {
                            st.fail(k, case_of(kind, raw, pic), m);
                            return;
                        }
                    }
                }
            }
        });
        st.merge(s);
    }
    // E1d: fixed-width name tokens (three-letter weekday and month, meridian) glued to each other
    // without any separator, over every (month, weekday) combination
    {
        let pics = [
            "YYYY-DD DYMON", "DyMon DD, YYYY", "YYYY DD MONDY", "monDY YYYY-DD", "YYYY-MM-DD DYAM HH:MI:SS", "YYYY-DD MONPM HH:MI:SS", "YYYY-MM-DD HH:MI:SS AMDY", "YYYY DD HH:MI:SS P.M.Mon", "DYMON DD YYYY HH24:MI:SS.FF6",
            "dyMonDD YYYY", "YYYYMonDD HH24MISS", "DDMONYYYY",
        ];
        let c = cal();
        let mut days: Vec<i128> = vec![];
        for m in 1..=12 {
            for d in 8..=14 {
                days.push(c.lookup(2024, m, d).unwrap() as i128);
            }
        }
        for pic in pics {
            for (j, d) in days.iter().enumerate() {
                let raw = d * US_PER_DAY + [0i128, 47_167_000_000, 86_399_000_000][j % 3];
                for kind in [Kind::Date, Kind::Ts, Kind::Ora] {
                    let toks = tokenize(pic).expect("valid picture");
                    if !toks.iter().all(|t| crate::model::text::applicable(kind, t)) {
                        continue;
                    }
                    // a picture without time fields carries a timestamp only at midnight
                    let raw = if kind == Kind::Date { *d } else if pic.contains("HH") { raw } else { d * US_PER_DAY };
                    st.evaluations += 1;
                    st.class("glued-fixed-width-name-tokens");
                    st.fps.push(hash_bytes(hash_ints(kind.index() as u64 + 0x62, &[raw]), pic.as_bytes()));
                    if let Err(m) = check_roundtrip(kind, raw, pic) {
                        st.fail(j as u64, case_of(kind, raw, pic), m);
                    }
                }
            }
        }
    }
    st.section("name_tokens_x_separators", &mut mark);

    // concurrent histories: 16 threads round-trip their own values at once
    {
        let iters = if ctx.thorough { 300_000 } else { 15_000 };
        for rep in 0..4u64 {
            let sd = seed ^ mix64(0xc06 ^ rep);
            match check_concurrent(sd, THREADS, iters) {
                Ok(n) => {
                    st.evaluations += 2 * n;
                    st.nontrivial_enum += 2 * n;
                    st.class_n("concurrent-round-trip", 2 * n);
                }
                Err(m) => st.fail(rep, Case::new(P, "concurrent", vec![sd as i128, THREADS as i128, iters as i128], vec![]), m),
            }
        }
    }
    st.section("concurrent_histories", &mut mark);

    let rep = Report {
        rule: "Lossless picture grammar per type (4-digit year + month [number / abbreviated / full name in any style] + day, or year + day of year, optional consistent day-of-year and weekday fields; 24-hour or 12-hour + one of the meridian spellings; minute, second; fraction FF / FFp with p large enough for the value; interval year/day first then the other fields), fields permuted, separators drawn from \"\" - / : . , ; \\ T and blank runs with a non-empty separator forced after variable-width fields and between name fields. E1: all dates x generated pictures (fresh per 4096-date chunk), all seconds x generated pictures on Time/Timestamp/OracleDate; E1b: boundary + binary-boundary pool values of every type (for Timestamp / OracleDate also times of day at 2^k us / ms / s and multiples of 2^31 / 2^32 us counted from midnight AND back from the next midnight, on boundary dates before and after 1970) x three fixed rich pictures carrying every consistent redundant field + one generated picture; E1c: every name / meridian token x every one- and two-token separator (punctuation and blank in both orders, two punctuation marks) x a following field, over dates covering every month and weekday; fixed-width name tokens (three-letter weekday / month, meridian) glued to each other and to fixed-width numbers without any separator, over every (month, weekday) combination; E2: proptest-generated values x pictures for all six types with shrinking; concurrent histories (16 threads). Oracle: parse(format(v,p),p) == v and format(that,p) == text byte for byte; the formatted text is also compared with the reference renderer so compensating errors cannot hide. Non-trivial = at least two value fields and one of: non-canonical order, a name field, 12-hour clock, extra consistency field, empty separator; distinct by (type, picture, value).".into(),
        assumptions: vec!["bare FF is treated as variable width on input (up to nine digits are read), FFp as exactly p digits".into()],
        exhaustive: false,
        extra: Default::default(),
    };
    (st, rep)
}
