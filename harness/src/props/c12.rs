//! C12 – time-of-day arithmetic wraps modulo 24 hours.

use crate::adapter as ad;
use crate::engine::*;
use crate::model::cal::*;
use crate::model::text::Kind;
use crate::pools;
use crate::strat;
use serde_json::json;
use sqldatetime::{IntervalDT, Time};
use std::cmp::Ordering;

const P: &str = "C12";

/// add (sub = false) / subtract an interval.
pub fn check_addsub(t: i64, iv: i64, sub: bool) -> Result<bool, String> {
    let exact = if sub { t as i128 - iv as i128 } else { t as i128 + iv as i128 };
    let want = exact.rem_euclid(US_PER_DAY);
    let got = guarded(|| {
        let (a, b) = (ad::time(t), ad::dt(iv));
        if sub {
            a.sub_interval_dt(b).usecs()
        } else {
            a.add_interval_dt(b).usecs()
        }
    })
    .map_err(|p| format!("Time({t}).{}(IntervalDT({iv})): {p}", if sub { "sub_interval_dt" } else { "add_interval_dt" }))?;
    if got as i128 != want {
        return Err(format!(
            "Time({t}).{}(IntervalDT({iv})) = {got}, expected (time {} interval) mod 24h = {want}",
            if sub { "sub_interval_dt" } else { "add_interval_dt" },
            if sub { "-" } else { "+" }
        ));
    }
    Ok(!(0..US_PER_DAY).contains(&exact) || iv as i128 % US_PER_DAY == 0 || (iv as i128).abs() >= DT_MAX - 1)
}

pub fn check_sub_time(a: i64, b: i64) -> Result<(), String> {
    let got = guarded(|| ad::time(a).sub_time(ad::time(b)).usecs())?;
    if got as i128 != a as i128 - b as i128 {
        return Err(format!("Time({a}).sub_time(Time({b})) = {got}, expected {}", a - b));
    }
    Ok(())
}

pub fn check_from_interval(iv: i64) -> Result<(), String> {
    let got = guarded(|| Time::from(ad::dt(iv)).usecs())?;
    let want = (iv as i128).abs() % US_PER_DAY;
    if got as i128 != want {
        return Err(format!("Time::from(IntervalDT({iv})) = {got}, expected |interval| mod 24h = {want}"));
    }
    let back = guarded(|| IntervalDT::from(ad::time(got)).usecs())?;
    if back != got {
        return Err(format!("IntervalDT::from(Time({got})) = {back}"));
    }
    Ok(())
}

pub fn check_cmp(t: i64, iv: i64) -> Result<(), String> {
    guarded(|| -> Result<(), String> {
        let (a, b) = (ad::time(t), ad::dt(iv));
        let want = t.cmp(&iv);
        let rev = want.reverse();
        if a.partial_cmp(&b) != Some(want) || b.partial_cmp(&a) != Some(rev) {
            return Err(format!("partial_cmp(Time({t}), IntervalDT({iv})) disagrees with the microsecond counts"));
        }
        if (a == b) != (t == iv) || (b == a) != (t == iv) || (a != b) != (t != iv) {
            return Err(format!("Time({t}) == IntervalDT({iv}) disagrees with the microsecond counts"));
        }
        if (a < b) != (want == Ordering::Less) || (a <= b) != (want != Ordering::Greater) || (a > b) != (want == Ordering::Greater) || (a >= b) != (want != Ordering::Less) {
            return Err(format!("Time({t}) <,<=,>,>= IntervalDT({iv}) disagree with the microsecond counts"));
        }
        if (b < a) != (rev == Ordering::Less) || (b <= a) != (rev != Ordering::Greater) || (b > a) != (rev == Ordering::Greater) || (b >= a) != (rev != Ordering::Less) {
            return Err(format!("IntervalDT({iv}) <,<=,>,>= Time({t}) disagree with the microsecond counts"));
        }
        Ok(())
    })
    .unwrap_or_else(|p| Err(p))
}

pub fn eval(case: &Case) -> Verdict {
    let i = &case.i;
    let r = match case.kind.as_str() {
        "addsub" => check_addsub(i[0] as i64, i[1] as i64, i[2] != 0).map(|_| ()),
        "sub_time" => check_sub_time(i[0] as i64, i[1] as i64),
        "from_interval" => check_from_interval(i[0] as i64),
        "cmp" => check_cmp(i[0] as i64, i[1] as i64),
        k => Err(format!("unknown case kind {k}")),
    };
    match r {
        Ok(()) => Verdict::Pass,
        Err(m) => Verdict::Fail(m),
    }
}

pub fn boundary_intervals() -> Vec<i64> {
    let d = US_PER_DAY as i64;
    let mx = DT_MAX as i64;
    let mut v = vec![0i64];
    for x in [1, 999_999, 1_000_000, d / 2, d / 2 + 1, d - 1, d, d + 1, 2 * d - 1, 2 * d, 2 * d + 1, 3 * d, 1000 * d, 1000 * d + d / 2, mx - d, mx - d + 1, mx - 1, mx] {
        v.push(x);
        v.push(-x);
    }
    // whole days plus / minus whole seconds, minutes and hours
    for days in [0, d, 2 * d, 1000 * d] {
        for k in [1i64, 2, 30, 59, 60, 61, 3599, 3600, 3601, 43_200, 86_399] {
            for x in [days + k * 1_000_000, days - k * 1_000_000] {
                if x != 0 && x.abs() <= mx {
                    v.push(x);
                    v.push(-x);
                }
            }
        }
    }
    v.sort();
    v.dedup();
    v
}

pub fn run(ctx: &Ctx) -> (Stats, Report) {
    let mut st = Stats::new();
    let mut mark = (0, 0);
    run_replays(P, &mut st, &eval);
    st.section("replays", &mut mark);
    let seed = ctx.seed;
    let ivs = boundary_intervals();

    // every second x boundary microseconds x boundary intervals
    let s = par_sweep(86_400, 256, |range, st| {
        for sec in range {
            for us in [0i64, 1, 999_999] {
                let t = sec as i64 * 1_000_000 + us;
                for (k, &iv) in ivs.iter().enumerate() {
                    for sub in [false, true] {
                        st.evaluations += 1;
                        match check_addsub(t, iv, sub) {
                            Ok(nt) => {
                                if nt {
                                    st.nontrivial_enum += 1;
                                    st.class("wrapped-or-whole-days-or-limit");
                                } else {
                                    st.class("no-wrap");
                                }
                            }
                            Err(m) => {
                                st.fail(sec, Case::new(P, "addsub", vec![t as i128, iv as i128, sub as i128], vec![]), m);
                                return;
                            }
                        }
                    }
                    if us == 1 {
                        st.evaluations += 1;
                        if let Err(m) = check_cmp(t, iv) {
                            st.fail(sec, Case::new(P, "cmp", vec![t as i128, iv as i128], vec![]), m);
                            return;
                        }
                        let key = mix64(seed ^ mix64(sec * 64 + k as u64));
                        if key < st.sample_threshold() {
                            st.sample(key, || json!({"time_us": t, "interval_us": iv, "sum_mod_day": (t as i128 + iv as i128).rem_euclid(US_PER_DAY).to_string()}));
                        }
                    }
                }
                // intervals derived from the time itself: its own value and its complement to
                // midnight, with whole days added and with either sign - equal times of day in both
                // operands (sums and differences of exactly 0 / 24 h, comparisons that differ only in
                // the day field or the sign)
                let dd = US_PER_DAY as i64;
                for days in [0i64, 1, 3, 1000, 99_999_998] {
                    for base in [t, dd - t] {
                        for iv in [base + days * dd, -(base + days * dd)] {
                            st.evaluations += 3;
                            st.nontrivial_enum += 3;
                            st.class("interval-derived-from-the-time-itself");
                            for sub in [false, true] {
                                if let Err(m) = check_addsub(t, iv, sub) {
                                    st.fail(sec, Case::new(P, "addsub", vec![t as i128, iv as i128, sub as i128], vec![]), m);
                                    return;
                                }
                            }
                            if let Err(m) = check_cmp(t, iv) {
                                st.fail(sec, Case::new(P, "cmp", vec![t as i128, iv as i128], vec![]), m);
                                return;
                            }
                        }
                    }
                }
                // the distance to the next / previous second, minute and hour boundary (+-1 us): small
                // intervals that carry or borrow through one, two or three clock fields
                for unit in [1_000_000i64, 60_000_000, 3_600_000_000] {
                    let r = t % unit;
                    for iv in [unit - r - 1, unit - r, unit - r + 1, -r - 1, -r, -r + 1] {
                        st.evaluations += 2;
                        st.nontrivial_enum += 2;
                        st.class("interval-reaching-the-next-or-previous-clock-field-boundary");
                        for sub in [false, true] {
                            if let Err(m) = check_addsub(t, iv, sub) {
                                st.fail(sec, Case::new(P, "addsub", vec![t as i128, iv as i128, sub as i128], vec![]), m);
                                return;
                            }
                        }
                    }
                }
                // comparisons against the interval equal / adjacent to the time itself
                for d in [-1i64, 0, 1] {
                    st.evaluations += 1;
                    st.nontrivial_enum += 1;
                    if let Err(m) = check_cmp(t, t + d) {
                        st.fail(sec, Case::new(P, "cmp", vec![t as i128, (t + d) as i128], vec![]), m);
                        return;
                    }
                }
            }
        }
    });
    st.merge(s);
    st.exhaustive_sections.push(format!("every second x {{0,1,999999}}us x {} boundary intervals x add/sub", ivs.len()));
    st.section("seconds_x_boundary_intervals", &mut mark);

    // random (time, interval) pairs, generated and shrunk by proptest
    let s = pt_run(
        "C12/addsub",
        seed,
        (if ctx.thorough { 400_000_000 } else { 24_000_000 }) / THREADS as u32,
        THREADS,
        || (strat::raw(Kind::Time), strat::raw(Kind::DT), proptest::bool::ANY),
        |(t, iv, sub): &(i128, i128, bool), st: &mut Stats| {
            st.evaluations += 1;
            let nt = check_addsub(*t as i64, *iv as i64, *sub)?;
            if nt {
                st.fps.push(hash_ints(12, &[*t, *iv, *sub as i128]));
                st.class("random-wrapped");
            } else {
                st.class("random-no-wrap");
            }
            check_cmp(*t as i64, *iv as i64)?;
            Ok(())
        },
        |(t, iv, sub): &(i128, i128, bool)| Case::new(P, "addsub", vec![*t, *iv, *sub as i128], vec![]),
    );
    st.merge(s);
    st.section("random_pairs", &mut mark);

    // sub_time on pool x pool, Time::from(interval) on the interval pool
    let tp = pools::time_pool(seed, if ctx.thorough { 1500 } else { 400 });
    let s = par_sweep((tp.len() * tp.len()) as u64, 8192, |range, st| {
        for k in range {
            let (a, b) = (tp[k as usize / tp.len()], tp[k as usize % tp.len()]);
            st.evaluations += 1;
            if a < b {
                st.fps.push(hash_ints(13, &[a, b]));
            }
            if let Err(m) = check_sub_time(a as i64, b as i64) {
                st.fail(k, Case::new(P, "sub_time", vec![a, b], vec![]), m);
                return;
            }
        }
    });
    st.merge(s);
    let dp = pools::dt_pool(seed, if ctx.thorough { 1_000_000 } else { 100_000 });
    let s = par_sweep(dp.len() as u64, 4096, |range, st| {
        for k in range {
            let iv = dp[k as usize];
            st.evaluations += 1;
            if iv < 0 || iv.abs() >= US_PER_DAY {
                st.fps.push(hash_ints(14, &[iv]));
            }
            if let Err(m) = check_from_interval(iv as i64) {
                st.fail(k, Case::new(P, "from_interval", vec![iv], vec![]), m);
                return;
            }
        }
    });
    st.merge(s);
    st.section("sub_time_and_conversions", &mut mark);

    let rep = Report {
        rule: "Every second of the day x {0, 1, 999999} us x boundary intervals (0, +-1us, +-(1 day -+ 1us), whole days, half days, +-range limit and neighbours) x add/sub, and intervals derived from the time itself (its own value and its complement to midnight, plus 0 / 1 / 3 / 1000 / 99,999,998 whole days, both signs) x add / sub / every comparison, the distances to the next / previous second, minute and hour boundary +-1 us, plus proptest-generated (time, interval) pairs with shrinking; sub_time on a time pool x pool; Time::from(interval) / IntervalDT::from(time) on an interval pool; Time<->IntervalDT comparisons in both argument orders. Oracle: i128 (t +- i) rem_euclid 86400e6, exact difference, |i| mod day, comparison of the raw counts. Non-trivial = t +- i falls outside [0, day), the interval is a multiple of a day, or it sits at a range limit; negative or >= 1 day for conversions.".into(),
        assumptions: vec![],
        exhaustive: false,
        extra: Default::default(),
    };
    (st, rep)
}
