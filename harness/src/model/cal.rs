//! M1 – incremental proleptic Gregorian calendar, and M7 – unit boundaries.
//!
//! Nothing here calls into the library. The calendar is produced by *stepping* one day at
//! a time with the rules of the property statement; no closed-form day-number formula is
//! used, so a wrong constant in the library's Julian-day arithmetic cannot be mirrored.

use std::sync::OnceLock;

#[derive(Clone, Copy, Debug, PartialEq, Eq)]
pub struct Row {
    /// day number, 1970-01-01 = 0
    pub n: i32,
    pub y: i32,
    pub m: u8,
    pub d: u8,
    /// 1-based day of year
    pub doy: u16,
    /// 1 = Sunday .. 7 = Saturday
    pub wd: u8,
}

pub struct Cal {
    pub rows: Vec<Row>,
    /// day number of rows[0] (0001-01-01)
    pub first: i32,
    /// day number of the last row (9999-12-31)
    pub last: i32,
    /// index into rows of day 1 of (y, m): [(y-1)*12 + (m-1)]
    month_start: Vec<u32>,
}

pub const MIN_YEAR: i32 = 1;
pub const MAX_YEAR: i32 = 9999;

pub fn leap(y: i32) -> bool {
    // every 4th year, except century years not divisible by 400
    if y % 4 != 0 {
        return false;
    }
    if y % 100 == 0 && y % 400 != 0 {
        return false;
    }
    true
}

pub fn month_len(y: i32, m: u32) -> u32 {
    match m {
        1 | 3 | 5 | 7 | 8 | 10 | 12 => 31,
        4 | 6 | 9 | 11 => 30,
        2 => {
            if leap(y) {
                29
            } else {
                28
            }
        }
        _ => 0,
    }
}

pub fn year_len(y: i32) -> u32 {
    if leap(y) {
        366
    } else {
        365
    }
}

impl Cal {
    fn build() -> Cal {
        let mut rows: Vec<Row> = Vec::with_capacity(3_700_000);
        let mut month_start = vec![0u32; (MAX_YEAR as usize) * 12];
        let (mut y, mut m, mut d, mut doy) = (MIN_YEAR, 1u32, 1u32, 1u32);
        let mut epoch_idx: Option<usize> = None;
        loop {
            if d == 1 {
                month_start[(y as usize - 1) * 12 + (m as usize - 1)] = rows.len() as u32;
            }
            if (y, m, d) == (1970, 1, 1) {
                epoch_idx = Some(rows.len());
            }
            rows.push(Row { n: 0, y, m: m as u8, d: d as u8, doy: doy as u16, wd: 0 });
            if (y, m, d) == (MAX_YEAR, 12, 31) {
                break;
            }
            // step to the next calendar day
            if d < month_len(y, m) {
                d += 1;
                doy += 1;
            } else if m < 12 {
                m += 1;
                d = 1;
                doy += 1;
            } else {
                y += 1;
                m = 1;
                d = 1;
                doy = 1;
            }
        }
        let e = epoch_idx.expect("1970-01-01 reached") as i64;
        for (i, r) in rows.iter_mut().enumerate() {
            let n = i as i64 - e;
            r.n = n as i32;
            // 1970-01-01 is a Thursday (5 when Sunday = 1); the weekday advances by one per day
            r.wd = ((n + 4).rem_euclid(7) + 1) as u8;
        }
        let first = rows[0].n;
        let last = rows[rows.len() - 1].n;
        Cal { rows, first, last, month_start }
    }

    #[inline]
    pub fn len(&self) -> usize {
        self.rows.len()
    }

    #[inline]
    pub fn in_range(&self, n: i64) -> bool {
        n >= self.first as i64 && n <= self.last as i64
    }

    #[inline]
    pub fn row(&self, n: i64) -> Option<&Row> {
        if self.in_range(n) {
            Some(&self.rows[(n - self.first as i64) as usize])
        } else {
            None
        }
    }

    #[inline]
    pub fn idx(&self, n: i32) -> usize {
        (n - self.first) as usize
    }

    /// Day number of (y, m, d) if that is a real date in years 1..=9999.
    #[inline]
    pub fn lookup(&self, y: i64, m: i64, d: i64) -> Option<i32> {
        if y < MIN_YEAR as i64 || y > MAX_YEAR as i64 || !(1..=12).contains(&m) || d < 1 {
            return None;
        }
        if d > month_len(y as i32, m as u32) as i64 {
            return None;
        }
        let i = self.month_start[(y as usize - 1) * 12 + (m as usize - 1)] as usize + (d as usize - 1);
        Some(self.rows[i].n)
    }

    /// Day number of (y, day-of-year).
    pub fn lookup_doy(&self, y: i64, doy: i64) -> Option<i32> {
        if y < MIN_YEAR as i64 || y > MAX_YEAR as i64 || doy < 1 || doy > year_len(y as i32) as i64 {
            return None;
        }
        let i = self.month_start[(y as usize - 1) * 12] as usize + (doy as usize - 1);
        Some(self.rows[i].n)
    }
}

pub fn cal() -> &'static Cal {
    static C: OnceLock<Cal> = OnceLock::new();
    C.get_or_init(Cal::build)
}

// ---------------------------------------------------------------------------------------
// M7 – unit boundaries

#[derive(Clone, Copy, Debug, PartialEq, Eq, Hash)]
pub enum Unit {
    Century,
    Year,
    IsoYear,
    Quarter,
    Month,
    Week,
    IsoWeek,
    MonthWeek,
    Day,
    SundayWeek,
    Hour,
    Minute,
}

pub const UNITS: [Unit; 12] = [
    Unit::Century,
    Unit::Year,
    Unit::IsoYear,
    Unit::Quarter,
    Unit::Month,
    Unit::Week,
    Unit::IsoWeek,
    Unit::MonthWeek,
    Unit::Day,
    Unit::SundayWeek,
    Unit::Hour,
    Unit::Minute,
];

impl Unit {
    pub fn name(self) -> &'static str {
        match self {
            Unit::Century => "century",
            Unit::Year => "year",
            Unit::IsoYear => "iso_year",
            Unit::Quarter => "quarter",
            Unit::Month => "month",
            Unit::Week => "week",
            Unit::IsoWeek => "iso_week",
            Unit::MonthWeek => "month_start_week",
            Unit::Day => "day",
            Unit::SundayWeek => "sunday_start_week",
            Unit::Hour => "hour",
            Unit::Minute => "minute",
        }
    }
    pub fn index(self) -> usize {
        UNITS.iter().position(|u| *u == self).unwrap()
    }
    pub fn from_index(i: usize) -> Unit {
        UNITS[i]
    }
    /// units whose boundaries are whole days
    pub fn is_day_based(self) -> bool {
        !matches!(self, Unit::Hour | Unit::Minute)
    }
}

/// Does a unit of this kind start at midnight of this day?
pub fn starts_unit(u: Unit, r: &Row) -> bool {
    match u {
        Unit::Century => (r.y - 1) % 100 == 0 && r.m == 1 && r.d == 1,
        Unit::Year => r.m == 1 && r.d == 1,
        // Monday of ISO week 1: the Monday in Dec 29 ..= Jan 4
        Unit::IsoYear => r.wd == 2 && ((r.m == 12 && r.d >= 29) || (r.m == 1 && r.d <= 4)),
        Unit::Quarter => r.d == 1 && matches!(r.m, 1 | 4 | 7 | 10),
        Unit::Month => r.d == 1,
        Unit::Week => (r.doy - 1) % 7 == 0,
        Unit::IsoWeek => r.wd == 2,
        Unit::MonthWeek => (r.d - 1) % 7 == 0,
        Unit::Day | Unit::Hour | Unit::Minute => true,
        Unit::SundayWeek => r.wd == 1,
    }
}

pub const NONE_BEFORE: i32 = -1;
pub const NONE_AFTER: i32 = i32::MAX;

/// For every day index i: prev[i] = index of the latest boundary <= i (or NONE_BEFORE);
/// next[i] = index of the earliest boundary > i (or NONE_AFTER when it lies after
/// 9999-12-31).
pub struct Bounds {
    pub prev: Vec<i32>,
    pub next: Vec<i32>,
}

pub fn bounds(u: Unit) -> Bounds {
    let c = cal();
    let n = c.len();
    let mut prev = vec![NONE_BEFORE; n];
    let mut next = vec![NONE_AFTER; n];
    let mut last = NONE_BEFORE;
    for i in 0..n {
        if starts_unit(u, &c.rows[i]) {
            last = i as i32;
        }
        prev[i] = last;
    }
    let mut nx = NONE_AFTER;
    for i in (0..n).rev() {
        next[i] = nx;
        if starts_unit(u, &c.rows[i]) {
            nx = i as i32;
        }
    }
    Bounds { prev, next }
}

pub const US_PER_DAY: i128 = 86_400_000_000;
pub const US_PER_HOUR: i128 = 3_600_000_000;
pub const US_PER_MIN: i128 = 60_000_000;
pub const US_PER_SEC: i128 = 1_000_000;

/// M2 range limits, derived from the walked calendar.
pub fn ts_min() -> i128 {
    cal().first as i128 * US_PER_DAY
}
pub fn ts_max() -> i128 {
    (cal().last as i128 + 1) * US_PER_DAY - 1
}
pub fn ora_max() -> i128 {
    (cal().last as i128 + 1) * US_PER_DAY - US_PER_SEC
}
pub const YM_MAX: i128 = 178_000_000 * 12;
pub const DT_MAX: i128 = 100_000_000 * US_PER_DAY;

#[inline]
pub fn ts_in_range(x: i128) -> bool {
    x >= ts_min() && x <= ts_max()
}
#[inline]
pub fn ora_in_range(x: i128) -> bool {
    x >= ts_min() && x <= ora_max() && x.rem_euclid(US_PER_SEC) == 0
}
#[inline]
pub fn time_in_range(x: i128) -> bool {
    x >= 0 && x < US_PER_DAY
}
#[inline]
pub fn ym_in_range(x: i128) -> bool {
    x >= -YM_MAX && x <= YM_MAX
}
#[inline]
pub fn dt_in_range(x: i128) -> bool {
    x >= -DT_MAX && x <= DT_MAX
}
#[inline]
pub fn date_in_range(x: i128) -> bool {
    x >= cal().first as i128 && x <= cal().last as i128
}
