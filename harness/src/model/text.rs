//! M4 – reference picture tokenizer; M5 – reference renderer. Written from the property
//! statements (C04, C19); nothing here calls into the library.

use super::cal::{cal, US_PER_DAY, US_PER_HOUR, US_PER_MIN, US_PER_SEC};

pub const MONTH_NAMES: [&str; 12] = [
    "January", "February", "March", "April", "May", "June", "July", "August", "September", "October", "November", "December",
];
/// Sunday first (weekday number 1 = Sunday)
pub const DAY_NAMES: [&str; 7] = ["Sunday", "Monday", "Tuesday", "Wednesday", "Thursday", "Friday", "Saturday"];

pub const MAX_TOKENS: usize = 36;

#[derive(Clone, Copy, Debug, PartialEq, Eq, Hash)]
pub enum Style {
    Upper,
    Capital,
    Lower,
    /// first letter lower, second upper: not fixed by the statement – compared ignoring case
    Unspec,
}

#[derive(Clone, Copy, Debug, PartialEq, Eq, Hash)]
pub enum MerCase {
    Upper,
    Lower,
    /// mixed case: compared ignoring case
    Mixed,
}

#[derive(Clone, Debug, PartialEq, Eq, Hash)]
pub enum Tok {
    Blank(usize),
    /// one of - : / \ , . ;
    Punct(u8),
    T,
    Year(u8),
    MM,
    Mon(Style),
    Month(Style),
    DD,
    DDD,
    D,
    Day(Style),
    Dy(Style),
    HH12,
    HH24,
    MI,
    SS,
    FF(Option<u8>),
    Mer { dotted: bool, case: MerCase },
    W,
    WW,
}

impl Tok {
    pub fn is_value_bearing(&self) -> bool {
        !matches!(self, Tok::Blank(_) | Tok::Punct(_) | Tok::T)
    }
}

fn style_of(a: u8, b: u8) -> Style {
    match (a.is_ascii_uppercase(), b.is_ascii_uppercase()) {
        (true, true) => Style::Upper,
        (true, false) => Style::Capital,
        (false, false) => Style::Lower,
        (false, true) => Style::Unspec,
    }
}

fn mer_case(a: u8, m: u8) -> MerCase {
    match (a.is_ascii_uppercase(), m.is_ascii_uppercase()) {
        (true, true) => MerCase::Upper,
        (false, false) => MerCase::Lower,
        _ => MerCase::Mixed,
    }
}

fn starts_ci(s: &[u8], pat: &[u8]) -> bool {
    s.len() >= pat.len() && s[..pat.len()].eq_ignore_ascii_case(pat)
}

/// Case-insensitive longest match over the documented token list. `None` = not a picture.
pub fn tokenize(p: &str) -> Option<Vec<Tok>> {
    let s = p.as_bytes();
    let mut i = 0;
    let mut out = Vec::new();
    while i < s.len() {
        let r = &s[i..];
        let c = r[0];
        let (tok, len) = match c {
            b' ' => {
                let n = r.iter().take_while(|&&x| x == b' ').count();
                (Tok::Blank(n), n)
            }
            b'-' | b':' | b'/' | b'\\' | b',' | b'.' | b';' => (Tok::Punct(c), 1),
            b'T' => (Tok::T, 1),
            b'Y' | b'y' => {
                let n = r.iter().take(4).take_while(|&&x| x == b'Y' || x == b'y').count();
                (Tok::Year(n as u8), n)
            }
            b'M' | b'm' => {
                if starts_ci(r, b"MONTH") {
                    (Tok::Month(style_of(r[0], r[1])), 5)
                } else if starts_ci(r, b"MON") {
                    (Tok::Mon(style_of(r[0], r[1])), 3)
                } else if starts_ci(r, b"MM") {
                    (Tok::MM, 2)
                } else if starts_ci(r, b"MI") {
                    (Tok::MI, 2)
                } else {
                    return None;
                }
            }
            b'D' | b'd' => {
                if starts_ci(r, b"DDD") {
                    (Tok::DDD, 3)
                } else if starts_ci(r, b"DAY") {
                    (Tok::Day(style_of(r[0], r[1])), 3)
                } else if starts_ci(r, b"DD") {
                    (Tok::DD, 2)
                } else if starts_ci(r, b"DY") {
                    (Tok::Dy(style_of(r[0], r[1])), 2)
                } else {
                    (Tok::D, 1)
                }
            }
            b'H' | b'h' => {
                if starts_ci(r, b"HH24") {
                    (Tok::HH24, 4)
                } else if starts_ci(r, b"HH12") {
                    (Tok::HH12, 4)
                } else if starts_ci(r, b"HH") {
                    (Tok::HH12, 2)
                } else {
                    return None;
                }
            }
            b'S' | b's' => {
                if starts_ci(r, b"SS") {
                    (Tok::SS, 2)
                } else {
                    return None;
                }
            }
            b'F' | b'f' => {
                if starts_ci(r, b"FF") {
                    if r.len() >= 3 && (b'1'..=b'9').contains(&r[2]) {
                        (Tok::FF(Some(r[2] - b'0')), 3)
                    } else {
                        (Tok::FF(None), 2)
                    }
                } else {
                    return None;
                }
            }
            b'A' | b'a' | b'P' | b'p' => {
                if r.len() >= 4 && r[1] == b'.' && (r[2] == b'M' || r[2] == b'm') && r[3] == b'.' {
                    (Tok::Mer { dotted: true, case: mer_case(r[0], r[2]) }, 4)
                } else if r.len() >= 2 && (r[1] == b'M' || r[1] == b'm') {
                    (Tok::Mer { dotted: false, case: mer_case(r[0], r[1]) }, 2)
                } else {
                    return None;
                }
            }
            b'W' | b'w' => {
                if starts_ci(r, b"WW") {
                    (Tok::WW, 2)
                } else {
                    (Tok::W, 1)
                }
            }
            _ => return None,
        };
        out.push(tok);
        if out.len() > MAX_TOKENS {
            return None;
        }
        i += len;
    }
    Some(out)
}

// ---------------------------------------------------------------------------------------
// values and their model decomposition

#[derive(Clone, Copy, Debug, PartialEq, Eq, Hash)]
pub enum Kind {
    Date,
    Time,
    Ts,
    Ora,
    YM,
    DT,
}

pub const KINDS: [Kind; 6] = [Kind::Date, Kind::Time, Kind::Ts, Kind::Ora, Kind::YM, Kind::DT];

impl Kind {
    pub fn name(self) -> &'static str {
        match self {
            Kind::Date => "Date",
            Kind::Time => "Time",
            Kind::Ts => "Timestamp",
            Kind::Ora => "OracleDate",
            Kind::YM => "IntervalYM",
            Kind::DT => "IntervalDT",
        }
    }
    pub fn index(self) -> usize {
        KINDS.iter().position(|k| *k == self).unwrap()
    }
    pub fn from_index(i: usize) -> Kind {
        KINDS[i % 6]
    }
    pub fn has_date(self) -> bool {
        matches!(self, Kind::Date | Kind::Ts | Kind::Ora)
    }
    pub fn is_interval(self) -> bool {
        matches!(self, Kind::YM | Kind::DT)
    }
}

/// A value of one of the six types as its raw count (days / months / microseconds).
#[derive(Clone, Copy, Debug, PartialEq, Eq, Hash)]
pub struct Val {
    pub kind: Kind,
    pub raw: i128,
}

#[derive(Clone, Copy, Debug, Default, PartialEq, Eq)]
pub struct Fields {
    pub neg: bool,
    /// calendar year, or interval years
    pub year: i64,
    pub month: u32,
    /// day of month, or interval days
    pub day: u32,
    pub doy: u32,
    /// 1 = Sunday
    pub wd: u32,
    pub hour: u32,
    pub min: u32,
    pub sec: u32,
    pub usec: u32,
}

impl Val {
    pub fn new(kind: Kind, raw: i128) -> Val {
        Val { kind, raw }
    }
    /// Model decomposition (M1/M2). Panics if the raw count is outside the type's range.
    pub fn fields(&self) -> Fields {
        let mut f = Fields::default();
        match self.kind {
            Kind::Date => {
                let r = cal().row(self.raw as i64).expect("date in range");
                f.year = r.y as i64;
                f.month = r.m as u32;
                f.day = r.d as u32;
                f.doy = r.doy as u32;
                f.wd = r.wd as u32;
            }
            Kind::Time => {
                set_time(&mut f, self.raw);
            }
            Kind::Ts | Kind::Ora => {
                let days = self.raw.div_euclid(US_PER_DAY);
                let t = self.raw.rem_euclid(US_PER_DAY);
                let r = cal().row(days as i64).expect("timestamp in range");
                f.year = r.y as i64;
                f.month = r.m as u32;
                f.day = r.d as u32;
                f.doy = r.doy as u32;
                f.wd = r.wd as u32;
                set_time(&mut f, t);
            }
            Kind::YM => {
                f.neg = self.raw < 0;
                let a = self.raw.abs();
                f.year = (a / 12) as i64;
                f.month = (a % 12) as u32;
            }
            Kind::DT => {
                f.neg = self.raw < 0;
                let a = self.raw.abs();
                f.day = (a / US_PER_DAY) as u32;
                set_time(&mut f, a % US_PER_DAY);
            }
        }
        f
    }
}

fn set_time(f: &mut Fields, t: i128) {
    f.hour = (t / US_PER_HOUR) as u32;
    f.min = (t % US_PER_HOUR / US_PER_MIN) as u32;
    f.sec = (t % US_PER_MIN / US_PER_SEC) as u32;
    f.usec = (t % US_PER_SEC) as u32;
}

// ---------------------------------------------------------------------------------------
// renderer

/// Reference text; positions flagged `loose` are compared ignoring ASCII case.
#[derive(Clone, Debug, Default, PartialEq)]
pub struct Rendered {
    pub text: String,
    pub loose: Vec<bool>,
}

impl Rendered {
    fn push(&mut self, s: &str, loose: bool) {
        self.text.push_str(s);
        for _ in 0..s.len() {
            self.loose.push(loose);
        }
    }
    pub fn matches(&self, got: &str) -> bool {
        let a = self.text.as_bytes();
        let b = got.as_bytes();
        if a.len() != b.len() {
            return false;
        }
        for i in 0..a.len() {
            if self.loose[i] {
                if !a[i].eq_ignore_ascii_case(&b[i]) {
                    return false;
                }
            } else if a[i] != b[i] {
                return false;
            }
        }
        true
    }
}

fn styled(name: &str, st: Style) -> (String, bool) {
    match st {
        Style::Upper => (name.to_ascii_uppercase(), false),
        Style::Capital => (name.to_string(), false),
        Style::Lower => (name.to_ascii_lowercase(), false),
        Style::Unspec => (name.to_ascii_lowercase(), true),
    }
}

fn pad(v: u64, width: usize) -> String {
    format!("{:0width$}", v, width = width)
}

/// Is the token applicable to a value of this kind (C04 applicability matrix)?
pub fn applicable(kind: Kind, t: &Tok) -> bool {
    let date_tok = matches!(
        t,
        Tok::Year(_) | Tok::MM | Tok::Mon(_) | Tok::Month(_) | Tok::DD | Tok::DDD | Tok::D | Tok::Day(_) | Tok::Dy(_) | Tok::W | Tok::WW
    );
    let time_tok = matches!(t, Tok::HH12 | Tok::HH24 | Tok::MI | Tok::SS | Tok::Mer { .. });
    let frac = matches!(t, Tok::FF(_));
    if !t.is_value_bearing() {
        return true;
    }
    match kind {
        Kind::Date => date_tok,
        Kind::Time => time_tok || frac,
        Kind::Ts => true,
        Kind::Ora => date_tok || time_tok,
        Kind::YM => matches!(t, Tok::Year(_) | Tok::MM),
        Kind::DT => matches!(t, Tok::DD | Tok::HH24 | Tok::MI | Tok::SS | Tok::FF(_)),
    }
}

/// Renders `v` by the token list; `None` when some token does not apply to the kind.
pub fn render(v: &Val, toks: &[Tok]) -> Option<Rendered> {
    if toks.iter().any(|t| !applicable(v.kind, t)) {
        return None;
    }
    let f = v.fields();
    let mut out = Rendered::default();
    if v.kind.is_interval() {
        out.push(if f.neg { "-" } else { "+" }, false);
    }
    for t in toks {
        match t {
            Tok::Blank(n) => {
                for _ in 0..*n {
                    out.push(" ", false);
                }
            }
            Tok::Punct(c) => out.push(std::str::from_utf8(&[*c]).unwrap(), false),
            Tok::T => out.push("T", false),
            Tok::Year(n) => {
                let n = *n as usize;
                if v.kind == Kind::YM {
                    // all digits, zero-padded to at least n
                    out.push(&pad(f.year as u64, n), false);
                } else {
                    // last n digits of the year, zero padded
                    let m = 10u64.pow(n as u32);
                    out.push(&pad(f.year as u64 % m, n), false);
                }
            }
            Tok::MM => out.push(&pad(f.month as u64, 2), false),
            Tok::Mon(st) => {
                let (s, l) = styled(&MONTH_NAMES[f.month as usize - 1][..3], *st);
                out.push(&s, l);
            }
            Tok::Month(st) => {
                let (s, l) = styled(MONTH_NAMES[f.month as usize - 1], *st);
                out.push(&s, l);
            }
            Tok::DD => out.push(&pad(f.day as u64, 2), false),
            Tok::DDD => out.push(&pad(f.doy as u64, 3), false),
            Tok::D => out.push(&f.wd.to_string(), false),
            Tok::Day(st) => {
                let (s, l) = styled(DAY_NAMES[f.wd as usize - 1], *st);
                out.push(&s, l);
            }
            Tok::Dy(st) => {
                let (s, l) = styled(&DAY_NAMES[f.wd as usize - 1][..3], *st);
                out.push(&s, l);
            }
            Tok::HH24 => out.push(&pad(f.hour as u64, 2), false),
            Tok::HH12 => {
                let h = match f.hour {
                    0 => 12,
                    1..=12 => f.hour,
                    h => h - 12,
                };
                out.push(&pad(h as u64, 2), false);
            }
            Tok::MI => out.push(&pad(f.min as u64, 2), false),
            Tok::SS => out.push(&pad(f.sec as u64, 2), false),
            Tok::FF(p) => {
                let p = p.unwrap_or(6) as usize;
                // first p digits of the six-digit microsecond count, padded with zeros to p
                let six = pad(f.usec as u64, 6);
                let mut s: String = six.chars().take(p.min(6)).collect();
                while s.len() < p {
                    s.push('0');
                }
                out.push(&s, false);
            }
            Tok::Mer { dotted, case } => {
                let am = f.hour < 12;
                let base = match (am, dotted) {
                    (true, false) => "AM",
                    (false, false) => "PM",
                    (true, true) => "A.M.",
                    (false, true) => "P.M.",
                };
                match case {
                    MerCase::Upper => out.push(base, false),
                    MerCase::Lower => out.push(&base.to_ascii_lowercase(), false),
                    MerCase::Mixed => out.push(base, true),
                }
            }
            Tok::W => out.push(&((f.day - 1) / 7 + 1).to_string(), false),
            Tok::WW => out.push(&pad(((f.doy - 1) / 7 + 1) as u64, 2), false),
        }
    }
    Some(out)
}

/// Canonical spelling of a token (upper case unless a style says otherwise).
pub fn spell_tok(t: &Tok) -> String {
    fn st(word: &str, s: Style) -> String {
        let w = word.as_bytes();
        let mut out = String::new();
        for (i, &c) in w.iter().enumerate() {
            let up = match s {
                Style::Upper => true,
                Style::Capital => i == 0,
                Style::Lower => false,
                Style::Unspec => i == 1,
            };
            out.push(if up { c.to_ascii_uppercase() as char } else { c.to_ascii_lowercase() as char });
        }
        out
    }
    match t {
        Tok::Blank(n) => " ".repeat(*n),
        Tok::Punct(c) => (*c as char).to_string(),
        Tok::T => "T".into(),
        Tok::Year(n) => "Y".repeat(*n as usize),
        Tok::MM => "MM".into(),
        Tok::Mon(s) => st("MON", *s),
        Tok::Month(s) => st("MONTH", *s),
        Tok::DD => "DD".into(),
        Tok::DDD => "DDD".into(),
        Tok::D => "D".into(),
        Tok::Day(s) => st("DAY", *s),
        Tok::Dy(s) => st("DY", *s),
        Tok::HH12 => "HH".into(),
        Tok::HH24 => "HH24".into(),
        Tok::MI => "MI".into(),
        Tok::SS => "SS".into(),
        Tok::FF(None) => "FF".into(),
        Tok::FF(Some(p)) => format!("FF{p}"),
        Tok::Mer { dotted, case } => {
            let (a, m) = match case {
                MerCase::Upper => ('A', 'M'),
                MerCase::Lower => ('a', 'm'),
                MerCase::Mixed => ('A', 'm'),
            };
            if *dotted {
                format!("{a}.{m}.")
            } else {
                format!("{a}{m}")
            }
        }
        Tok::W => "W".into(),
        Tok::WW => "WW".into(),
    }
}

pub fn spell(toks: &[Tok]) -> String {
    toks.iter().map(spell_tok).collect()
}
