//! M3 – exact arithmetic on doubles seen as dyadic rationals m * 2^e, for C08 (`add_days`),
//! C14 (`mul_f64` / `div_f64`) and C16. No floating-point operation takes part in any
//! decision; every admissible set computed here is a (very slightly enlarged) superset of
//! the set allowed by the statement, so rounding ties and sub-ulp effects cannot raise an
//! alarm.

#[derive(Clone, Copy, Debug, PartialEq, Eq)]
pub enum ErrKind {
    InvalidNumber,
    NumericOverflow,
    DivideByZero,
    Range,
}

#[derive(Clone, Debug, PartialEq)]
pub struct Expect {
    /// admissible `Ok` values (inclusive), already intersected with the type's range
    pub ok: Option<(i128, i128)>,
    /// admissible error kinds; empty = the call must succeed
    pub errs: Vec<ErrKind>,
    /// when set, the admissible set was narrowed to this single exact value
    pub exact: bool,
    pub class: &'static str,
}

/// Finite non-zero double as (negative, m, e) with value = m * 2^e and 2^52 <= m < 2^53
/// (subnormals are scaled up, so m keeps its 53-bit form with a smaller e).
pub fn decode(x: f64) -> Option<(bool, u64, i32)> {
    if !x.is_finite() || x == 0.0 {
        return None;
    }
    let bits = x.to_bits();
    let neg = bits >> 63 == 1;
    let exp = ((bits >> 52) & 0x7ff) as i32;
    let frac = bits & ((1u64 << 52) - 1);
    let (mut m, mut e) = if exp == 0 { (frac, -1074) } else { (frac | (1u64 << 52), exp - 1075) };
    while m < (1u64 << 52) {
        m <<= 1;
        e -= 1;
    }
    Some((neg, m, e))
}

fn bits(x: i128) -> i32 {
    128 - x.unsigned_abs().leading_zeros() as i32
}

const SAT: i128 = i128::MAX / 4;

/// trunc(L * 2^e) saturated to +-SAT.
fn trunc_scaled(l: i128, e: i32) -> i128 {
    if l == 0 {
        return 0;
    }
    if e >= 0 {
        if bits(l) + e > 124 {
            return if l > 0 { SAT } else { -SAT };
        }
        l << e
    } else {
        let s = -e;
        if s >= 127 {
            return 0;
        }
        let a = l.unsigned_abs() >> s;
        if l > 0 {
            a as i128
        } else {
            -(a as i128)
        }
    }
}

/// floor(L * 2^e) and ceil(L * 2^e), saturated.
fn floor_scaled(l: i128, e: i32) -> i128 {
    if e >= 0 {
        return trunc_scaled(l, e);
    }
    let s = -e;
    if s >= 127 {
        return if l < 0 { -1 } else { 0 };
    }
    l >> s // arithmetic shift = floor
}
fn ceil_scaled(l: i128, e: i32) -> i128 {
    -floor_scaled(-l, e)
}

// ---------------------------------------------------------------------------------------
// add_days: offset = days * 86400e6 microseconds

#[derive(Clone, Debug, PartialEq)]
pub enum Offset {
    Nan,
    Infinite,
    /// admissible integer offsets lo..=hi (saturated); `exact` when the double product is
    /// exactly representable, in which case lo == hi == round-half-away(real offset)
    Finite { lo: i128, hi: i128, exact: bool },
}

/// Admissible microsecond offsets for `days` (C08): integers n with
/// |n - R| <= 1/2 + |R| * 2^-53 (one rounding of the double multiplication), R = days*86400e6.
pub fn day_offset(days: f64, unit_per_day: i128) -> Offset {
    if days.is_nan() {
        return Offset::Nan;
    }
    if days.is_infinite() {
        return Offset::Infinite;
    }
    if days == 0.0 {
        return Offset::Finite { lo: 0, hi: 0, exact: true };
    }
    let (neg, m, e) = decode(days).unwrap();
    let n0 = m as i128 * unit_per_day; // |R| = n0 * 2^e, n0 < 2^53 * 8.64e10 < 2^90
    let mag = bits(n0) + e; // 2^(mag-1) <= |R| < 2^mag
    if mag >= 1024 {
        // the double product overflows (or sits at the very top of the double range)
        return Offset::Infinite;
    }
    // exactly representable product: odd part of n0 below 2^53 (exponent is in range here)
    let odd = n0 >> n0.trailing_zeros();
    let exact = bits(odd) <= 53 && mag > -1021;
    let (lo_abs, hi_abs);
    if exact {
        // round half away from zero of n0 * 2^e
        // an exact tie is "nearest" in both directions: both neighbours are admitted
        let (r_lo, r_hi) = if e >= 0 {
            let r = trunc_scaled(n0, e);
            (r, r)
        } else {
            let s = -e;
            if s >= 126 {
                (0, 0)
            } else {
                let q = n0 >> s;
                let rem = n0 - (q << s);
                let half = 1i128 << (s - 1);
                if rem > half {
                    (q + 1, q + 1)
                } else if rem == half {
                    (q, q + 1)
                } else {
                    (q, q)
                }
            }
        };
        lo_abs = r_lo;
        hi_abs = r_hi;
    } else {
        // tolerance in units of 2^e: 2^(-e-1) (the half) + n0 * 2^-53
        let tol_units = (n0 >> 53) + 1; // >= n0 * 2^-53
        if e >= 0 {
            // R is an integer; |n - R| <= floor(1/2 + tol) <= tol_units * 2^e
            let r = trunc_scaled(n0, e);
            let t = trunc_scaled(tol_units, e);
            lo_abs = if r >= SAT { SAT } else { r - t };
            hi_abs = if r >= SAT { SAT } else { r + t };
        } else {
            let s = -e;
            if s >= 120 {
                lo_abs = 0;
                hi_abs = 0;
            } else {
                // n admissible iff (R - 1/2 - tol) <= n <= (R + 1/2 + tol), all scaled by 2^s
                let half = 1i128 << (s - 1);
                lo_abs = ceil_scaled(n0 - half - tol_units, e).max(0);
                hi_abs = floor_scaled(n0 + half + tol_units, e);
            }
        }
    }
    if neg {
        Offset::Finite { lo: -hi_abs, hi: -lo_abs, exact }
    } else {
        Offset::Finite { lo: lo_abs, hi: hi_abs, exact }
    }
}

// ---------------------------------------------------------------------------------------
// scaling an integer count by a double

const EXTRA: i32 = 8; // guard bits: the admissible set is enlarged by a relative 2^-60 at most

/// 256-bit unsigned, just enough for the comparisons at the overflow threshold of a double.
#[derive(Clone, Copy, PartialEq, Eq, Debug)]
struct U256 {
    hi: u128,
    lo: u128,
}

impl U256 {
    fn from(x: u128) -> U256 {
        U256 { hi: 0, lo: x }
    }
    fn mul_u64(self, k: u64) -> U256 {
        let k = k as u128;
        let (l0, l1) = (self.lo & ((1u128 << 64) - 1), self.lo >> 64);
        let p0 = l0 * k;
        let p1 = l1 * k + (p0 >> 64);
        let lo = (p0 & ((1u128 << 64) - 1)) | (p1 << 64);
        let hi = self.hi * k + (p1 >> 64);
        U256 { hi, lo }
    }
    fn shl(self, n: u32) -> Option<U256> {
        if n == 0 {
            return Some(self);
        }
        if n >= 256 {
            return if self.hi == 0 && self.lo == 0 { Some(self) } else { None };
        }
        if n >= 128 {
            if self.hi != 0 || (n > 128 && self.lo >> (256 - n) != 0) {
                return None;
            }
            return Some(U256 { hi: self.lo << (n - 128), lo: 0 });
        }
        if self.hi >> (128 - n) != 0 {
            return None;
        }
        Some(U256 { hi: (self.hi << n) | (self.lo >> (128 - n)), lo: self.lo << n })
    }
    fn lt(self, o: U256) -> bool {
        (self.hi, self.lo) < (o.hi, o.lo)
    }
}

/// Position of the real magnitude  num * 2^sh / den  (num, den > 0) relative to the threshold
/// T = 2^1024 - 2^970 from which a correctly rounded double becomes infinite, with the statement's
/// relative tolerance (2^-52, taken as 2^-51 to stay on the safe side):
/// -1 = every admissible computed value is finite, +1 = every one is infinite, 0 = both occur.
fn overflow_side(num: u128, sh: i32, den: u128) -> i32 {
    // num * 2^sh * (2^51 +- 1)   vs   den * (2^54 - 1) * 2^(970 + 51)
    let t = U256::from(den).mul_u64((1u64 << 54) - 1);
    let cmp = |factor: u64| -> std::cmp::Ordering {
        // compares num * factor * 2^(sh - 1021) with t
        let l = U256::from(num).mul_u64(factor);
        let d = sh - 1021;
        let (a, b) = if d >= 0 { (l.shl(d as u32), Some(t)) } else { (Some(l), t.shl((-d) as u32)) };
        match (a, b) {
            (None, _) => std::cmp::Ordering::Greater, // left side does not even fit: far above
            (_, None) => std::cmp::Ordering::Less,
            (Some(a), Some(b)) => {
                if a.lt(b) {
                    std::cmp::Ordering::Less
                } else if a == b {
                    std::cmp::Ordering::Equal
                } else {
                    std::cmp::Ordering::Greater
                }
            }
        }
    };
    if cmp((1u64 << 51) + 1) == std::cmp::Ordering::Less {
        -1
    } else if cmp((1u64 << 51) - 1) != std::cmp::Ordering::Less {
        1
    } else {
        0
    }
}

fn classify_huge(mag_lo: i32, mag_hi: i32, lim: i128, num: u128, sh: i32, den: u128) -> Option<Expect> {
    // 2^mag_lo <= |real result| < 2^mag_hi (coarse pre-filter), exact position by overflow_side
    let _ = lim;
    if mag_lo >= 1025 {
        return Some(Expect { ok: None, errs: vec![ErrKind::NumericOverflow], exact: false, class: "real-result-beyond-double-range" });
    }
    if mag_hi >= 1022 {
        return Some(match overflow_side(num, sh, den) {
            1 => Expect { ok: None, errs: vec![ErrKind::NumericOverflow], exact: false, class: "real-result-beyond-double-range" },
            -1 => Expect { ok: None, errs: vec![ErrKind::Range], exact: false, class: "result-out-of-range" },
            _ => Expect { ok: None, errs: vec![ErrKind::NumericOverflow, ErrKind::Range], exact: false, class: "real-result-near-double-maximum" },
        });
    }
    None
}

fn finish(lo: i128, hi: i128, lim: i128, exact: bool, class: &'static str) -> Expect {
    // admissible values lo..=hi (lo <= hi); range is -lim..=lim
    let (a, b) = (lo.max(-lim), hi.min(lim));
    if a > b {
        return Expect { ok: None, errs: vec![ErrKind::Range], exact, class: "result-out-of-range" };
    }
    let straddles = lo < -lim || hi > lim;
    Expect { ok: Some((a, b)), errs: if straddles { vec![ErrKind::Range] } else { vec![] }, exact, class: if straddles { "result-at-range-limit" } else { class } }
}

/// `x * k` truncated toward zero; `lim` = symmetric range limit of the result type.
pub fn mul_expect(x: i128, k: f64, lim: i128) -> Expect {
    if k.is_nan() {
        return Expect { ok: None, errs: vec![ErrKind::InvalidNumber], exact: false, class: "nan-operand" };
    }
    if k.is_infinite() {
        return if x == 0 {
            Expect { ok: None, errs: vec![ErrKind::InvalidNumber], exact: false, class: "zero-times-infinity" }
        } else {
            Expect { ok: None, errs: vec![ErrKind::NumericOverflow], exact: false, class: "infinite-operand" }
        };
    }
    if k == 0.0 || x == 0 {
        return Expect { ok: Some((0, 0)), errs: vec![], exact: true, class: "zero-product" };
    }
    let (neg, m, e) = decode(k).unwrap();
    let n = x * m as i128; // |x| < 2^64, m < 2^53
    let n = if neg { -n } else { n };
    let mag_hi = bits(n) + e;
    if let Some(ex) = classify_huge(mag_hi - 1, mag_hi, lim, n.unsigned_abs(), e, 1) {
        return ex;
    }
    // exact integer multiplier with |x*k| < 2^53: exactly x*k
    if e >= 0 || (m >> (-e).min(63)) << (-e).min(63) == m && -e <= 52 {
        let real = trunc_scaled(n, e);
        if real.abs() < (1i128 << 53) {
            return finish(real, real, lim, true, "integer-multiplier-exact");
        }
    }
    let n8 = n << EXTRA;
    let e8 = e - EXTRA;
    let tol = (n8.abs() >> 52) + 1;
    let lo = trunc_scaled(n8 - tol, e8);
    let hi = trunc_scaled(n8 + tol, e8);
    finish(lo.min(hi), lo.max(hi), lim, false, "double-precision-product")
}

/// `x / k` truncated toward zero.
pub fn div_expect(x: i128, k: f64, lim: i128) -> Expect {
    if k == 0.0 {
        return Expect { ok: None, errs: vec![ErrKind::DivideByZero], exact: false, class: "division-by-zero" };
    }
    if k.is_nan() {
        return Expect { ok: None, errs: vec![ErrKind::InvalidNumber], exact: false, class: "nan-operand" };
    }
    if k.is_infinite() || x == 0 {
        return Expect { ok: Some((0, 0)), errs: vec![], exact: true, class: "zero-quotient" };
    }
    let (neg, m, e) = decode(k).unwrap();
    let sx = if (x < 0) != neg { -1i128 } else { 1 };
    let ax = x.abs();
    let m = m as i128;
    // |Q| = ax / (m * 2^e)
    let (p, d): (i128, i128);
    if e >= 0 {
        if e > 50 {
            return finish(0, 0, lim, false, "tiny-quotient");
        }
        p = ax;
        d = m << e;
    } else {
        let s = -e;
        // log2|Q| in [bits(ax)-1+s-53, bits(ax)+s-52)
        let mag_lo = bits(ax) - 1 + s - 53;
        let mag_hi = bits(ax) + s - 52;
        if let Some(ex) = classify_huge(mag_lo, mag_hi, lim, ax as u128, s, m as u128) {
            return ex;
        }
        if bits(ax) + s > 122 {
            // |Q| >= 2^(122-1-53) = 2^68: far outside every interval range
            return Expect { ok: None, errs: vec![ErrKind::Range], exact: false, class: "result-out-of-range" };
        }
        p = ax << s;
        d = m;
    }
    let q0 = p / d;
    let r0 = p % d;
    if q0 > (1i128 << 70) {
        return Expect { ok: None, errs: vec![ErrKind::Range], exact: false, class: "result-out-of-range" };
    }
    // tolerance tau <= (q0 + 1) * 2^-52 * (1 + 2^-8)
    // crossing toward zero:  r0/d <= tau   <=>  r0 * 2^52 <= (q0+1) * d * (1+2^-8)
    // crossing away:  (d - r0)/d <= tau
    let budget = {
        let b = (q0 + 1).checked_mul(d);
        match b {
            Some(b) => b + (b >> 8) + 1,
            None => i128::MAX / 2,
        }
    };
    let scaled = |r: i128| -> bool {
        // r * 2^52 <= budget, without overflow
        if bits(r) + 52 > 126 {
            // r is huge; compare r <= budget >> 52 (rounded up)
            r <= (budget >> 52) + 1
        } else {
            (r << 52) <= budget
        }
    };
    let span = ((q0 + 1) >> 52) + 1; // whole units the tolerance itself can cover
    let mut lo = q0;
    let mut hi = q0;
    if scaled(r0) {
        lo = q0 - span;
    } else if span > 1 {
        lo = q0 - span + 1;
    }
    if scaled(d - r0) {
        hi = q0 + span;
    } else if span > 1 {
        hi = q0 + span - 1;
    }
    let lo = lo.max(0);
    let exact = r0 == 0 && lo == hi;
    if sx > 0 {
        finish(lo, hi, lim, exact, "double-precision-quotient")
    } else {
        finish(-hi, -lo, lim, exact, "double-precision-quotient")
    }
}

#[cfg(test)]
mod tests {
    use super::*;
    #[test]
    fn decode_roundtrip() {
        for x in [1.0, 0.1, 1e-300, f64::MIN_POSITIVE / 8.0, 3.5, 1e300, -2.34] {
            let (neg, m, e) = decode(x).unwrap();
            let y = (m as f64) * (2.0f64).powi(e.max(-1000)) * if e < -1000 { (2.0f64).powi(e + 1000) } else { 1.0 };
            assert_eq!(if neg { -y } else { y }, x);
        }
    }
    #[test]
    fn overflow_threshold() {
        // 1 / 2^-1023 = 2^1023: finite (half the maximum) -> only a range error is right
        assert_eq!(div_expect(1, f64::MIN_POSITIVE / 2.0, 1 << 62).errs, vec![ErrKind::Range]);
        // 3 / 2e-308 = 1.5e308 < MAX: finite
        assert_eq!(div_expect(3, 2e-308, 1 << 62).errs, vec![ErrKind::Range]);
        // 4 / 2^-1023 = 2^1025: infinite
        assert_eq!(div_expect(4, f64::MIN_POSITIVE / 2.0, 1 << 62).errs, vec![ErrKind::NumericOverflow]);
        // x * (MAX / x) sits at the threshold: either
        let x = 1_000_000i128;
        assert_eq!(mul_expect(x, f64::MAX / x as f64, 1 << 62).errs.len(), 2);
        // clearly finite / clearly infinite products
        assert_eq!(mul_expect(x, f64::MAX / x as f64 / 2.0, 1 << 62).errs, vec![ErrKind::Range]);
        assert_eq!(mul_expect(3, f64::MAX / 2.0, 1 << 62).errs, vec![ErrKind::NumericOverflow]);
        // 1 * MAX is exact, but within the 2^-52 tolerance of the threshold: either kind
        assert_eq!(mul_expect(1, f64::MAX, 1 << 62).errs.len(), 2);
        assert_eq!(mul_expect(1, f64::MAX / 2.0, 1 << 62).errs, vec![ErrKind::Range]);
        assert_eq!(mul_expect(2, f64::MAX, 1 << 62).errs, vec![ErrKind::NumericOverflow]);
    }
    #[test]
    fn offsets() {
        assert_eq!(day_offset(1.0, 86_400_000_000), Offset::Finite { lo: 86_400_000_000, hi: 86_400_000_000, exact: true });
        assert_eq!(day_offset(-0.5, 86_400_000_000), Offset::Finite { lo: -43_200_000_000, hi: -43_200_000_000, exact: true });
        match day_offset(0.1, 86_400_000_000) {
            Offset::Finite { lo, hi, .. } => assert!(lo <= 8_640_000_000 && 8_640_000_000 <= hi && hi - lo <= 1),
            _ => panic!(),
        }
    }
    #[test]
    fn scaling() {
        assert_eq!(mul_expect(10, 2.5, 1000).ok, Some((24, 25)));
        assert_eq!(mul_expect(10, 3.0, 1000).ok, Some((30, 30)));
        assert_eq!(mul_expect(-7, 0.5, 1000).ok, Some((-3, -3)));
        let e = mul_expect(7, 0.1, 1000);
        assert!(e.ok.unwrap().0 <= 0 && e.ok.unwrap().1 >= 0);
        assert_eq!(div_expect(7, 2.0, 1000).ok, Some((3, 3)));
        assert_eq!(div_expect(-7, 2.0, 1000).ok, Some((-3, -3)));
        let d = div_expect(6, 2.0, 1000).ok.unwrap();
        assert!(d.0 <= 3 && 3 <= d.1);
        assert_eq!(div_expect(1, 0.0, 10).errs, vec![ErrKind::DivideByZero]);
    }
}
