//! Engine: cases, verdicts, statistics, parallel sweeps, proptest driver, evidence, replays.

use serde_json::{json, Map, Value};
use std::collections::BTreeMap;
use std::panic::{catch_unwind, AssertUnwindSafe};
use std::sync::atomic::{AtomicU64, Ordering};
use std::sync::Mutex;

pub const THREADS: usize = 16;

// ---------------------------------------------------------------------------------------
// hashing (fixed, no per-process randomness)

#[inline]
pub fn mix64(mut x: u64) -> u64 {
    x ^= x >> 30;
    x = x.wrapping_mul(0xbf58476d1ce4e5b9);
    x ^= x >> 27;
    x = x.wrapping_mul(0x94d049bb133111eb);
    x ^= x >> 31;
    x
}

#[inline]
pub fn hash_bytes(seed: u64, b: &[u8]) -> u64 {
    // FNV-1a followed by a finaliser
    let mut h: u64 = 0xcbf29ce484222325 ^ seed;
    for &c in b {
        h ^= c as u64;
        h = h.wrapping_mul(0x100000001b3);
    }
    mix64(h)
}

#[inline]
pub fn hash_ints(seed: u64, v: &[i128]) -> u64 {
    let mut h = mix64(seed ^ 0x9e3779b97f4a7c15);
    for &x in v {
        h = mix64(h ^ (x as u64)).wrapping_add(mix64((x >> 64) as u64 ^ 0x51));
    }
    h
}

/// Small deterministic generator for places where the choice is *not* part of a shrinkable
/// case (pool construction, reservoir keys). Pure function of the seed.
#[derive(Clone)]
pub struct SplitMix(pub u64);
impl SplitMix {
    #[inline]
    pub fn next(&mut self) -> u64 {
        self.0 = self.0.wrapping_add(0x9e3779b97f4a7c15);
        mix64(self.0)
    }
    #[inline]
    pub fn below(&mut self, n: u64) -> u64 {
        ((self.next() as u128 * n as u128) >> 64) as u64
    }
    #[inline]
    pub fn range_i128(&mut self, lo: i128, hi: i128) -> i128 {
        // inclusive
        let span = (hi - lo + 1) as u128;
        let r = ((self.next() as u128) << 64 | self.next() as u128) % span;
        lo + r as i128
    }
}

// ---------------------------------------------------------------------------------------
// cases

/// A replayable case: loosely typed so that one reader/writer serves every property.
#[derive(Clone, Debug, PartialEq)]
pub struct Case {
    pub prop: String,
    pub kind: String,
    pub i: Vec<i128>,
    pub s: Vec<String>,
}

impl Case {
    pub fn new(prop: &str, kind: &str, i: Vec<i128>, s: Vec<String>) -> Case {
        Case { prop: prop.to_string(), kind: kind.to_string(), i, s }
    }
    pub fn fingerprint(&self) -> u64 {
        let mut h = hash_bytes(1, self.prop.as_bytes());
        h = hash_bytes(h, self.kind.as_bytes());
        h = hash_ints(h, &self.i);
        for s in &self.s {
            h = hash_bytes(h, s.as_bytes());
        }
        h
    }
    pub fn to_json(&self) -> Value {
        json!({
            "property": self.prop,
            "kind": self.kind,
            "i": self.i.iter().map(|x| x.to_string()).collect::<Vec<_>>(),
            "s": self.s,
        })
    }
    pub fn from_json(v: &Value) -> Result<Case, String> {
        let prop = v.get("property").and_then(|x| x.as_str()).ok_or("no property")?.to_string();
        let kind = v.get("kind").and_then(|x| x.as_str()).ok_or("no kind")?.to_string();
        let mut i = vec![];
        if let Some(a) = v.get("i").and_then(|x| x.as_array()) {
            for x in a {
                let t = match x {
                    Value::String(s) => s.parse::<i128>().map_err(|e| format!("bad int {s}: {e}"))?,
                    Value::Number(n) => n.as_i64().ok_or("bad number")? as i128,
                    _ => return Err("bad int".into()),
                };
                i.push(t);
            }
        }
        let mut s = vec![];
        if let Some(a) = v.get("s").and_then(|x| x.as_array()) {
            for x in a {
                s.push(x.as_str().ok_or("bad str")?.to_string());
            }
        }
        Ok(Case { prop, kind, i, s })
    }
}

#[inline]
pub fn f2i(x: f64) -> i128 {
    x.to_bits() as i128
}
#[inline]
pub fn i2f(x: i128) -> f64 {
    f64::from_bits(x as u64)
}

/// Outcome of judging one case.
#[derive(Debug, Clone, PartialEq)]
pub enum Verdict {
    Pass,
    /// matches a listed known finding (id in known_findings.json)
    Known(&'static str),
    Fail(String),
}

impl Verdict {
    pub fn is_fail(&self) -> bool {
        matches!(self, Verdict::Fail(_))
    }
}

/// Calls `f`, turning a panic into `Err(message)`.
pub fn guarded<T>(f: impl FnOnce() -> T) -> Result<T, String> {
    match catch_unwind(AssertUnwindSafe(f)) {
        Ok(v) => Ok(v),
        Err(e) => {
            let msg = if let Some(s) = e.downcast_ref::<&str>() {
                s.to_string()
            } else if let Some(s) = e.downcast_ref::<String>() {
                s.clone()
            } else {
                "non-string panic payload".to_string()
            };
            Err(format!("PANIC: {msg}"))
        }
    }
}

pub fn silence_panics() {
    std::panic::set_hook(Box::new(|_| {}));
}

// ---------------------------------------------------------------------------------------
// statistics

pub const MAX_SAMPLES: usize = 12;
pub const MAX_FAILS: usize = 4;

#[derive(Default)]
pub struct Stats {
    pub evaluations: u64,
    /// non-trivial cases that are distinct by construction (enumeration index)
    pub nontrivial_enum: u64,
    /// fingerprints of non-trivial cases whose distinctness must be measured
    pub fps: Vec<u64>,
    pub classes: BTreeMap<&'static str, u64>,
    pub samples: Vec<(u64, Value)>,
    pub fails: Vec<(u64, Case, String)>,
    pub known: BTreeMap<&'static str, (u64, Option<Case>)>,
    pub sections: BTreeMap<String, (u64, u64)>,
    pub notes: Vec<String>,
    pub exhaustive_sections: Vec<String>,
    /// samples already attributed to a closed section
    pub section_samples: Vec<Value>,
    pub section_secs: BTreeMap<String, f64>,
    pub section_clock: Option<std::time::Instant>,
}

impl Stats {
    pub fn new() -> Stats {
        Stats::default()
    }
    #[inline]
    pub fn class(&mut self, c: &'static str) {
        *self.classes.entry(c).or_insert(0) += 1;
    }
    #[inline]
    pub fn class_n(&mut self, c: &'static str, n: u64) {
        *self.classes.entry(c).or_insert(0) += n;
    }
    pub fn sample(&mut self, key: u64, v: impl FnOnce() -> Value) {
        if self.samples.len() < MAX_SAMPLES {
            self.samples.push((key, v()));
            self.samples.sort_by_key(|x| x.0);
        } else if key < self.samples[MAX_SAMPLES - 1].0 {
            self.samples[MAX_SAMPLES - 1] = (key, v());
            self.samples.sort_by_key(|x| x.0);
        }
    }
    #[inline]
    pub fn sample_threshold(&self) -> u64 {
        if self.samples.len() < MAX_SAMPLES {
            u64::MAX
        } else {
            self.samples[MAX_SAMPLES - 1].0
        }
    }
    pub fn fail(&mut self, order: u64, case: Case, msg: String) {
        self.fails.push((order, case, msg));
        self.fails.sort_by_key(|x| x.0);
        self.fails.truncate(MAX_FAILS);
    }
    pub fn known(&mut self, id: &'static str, case: impl FnOnce() -> Case) {
        let e = self.known.entry(id).or_insert((0, None));
        e.0 += 1;
        if e.1.is_none() {
            e.1 = Some(case());
        }
    }
    /// Records a verdict; `order` ranks failures (smaller = reported first).
    pub fn verdict(&mut self, v: Verdict, order: u64, case: impl FnOnce() -> Case) {
        match v {
            Verdict::Pass => {}
            Verdict::Known(id) => self.known(id, case),
            Verdict::Fail(m) => self.fail(order, case(), m),
        }
    }
    pub fn merge(&mut self, o: Stats) {
        self.evaluations += o.evaluations;
        self.nontrivial_enum += o.nontrivial_enum;
        self.fps.extend(o.fps);
        for (k, v) in o.classes {
            *self.classes.entry(k).or_insert(0) += v;
        }
        self.samples.extend(o.samples);
        self.samples.sort_by_key(|x| x.0);
        self.samples.truncate(MAX_SAMPLES);
        self.fails.extend(o.fails);
        self.fails.sort_by_key(|x| x.0);
        self.fails.truncate(MAX_FAILS);
        for (k, (n, c)) in o.known {
            let e = self.known.entry(k).or_insert((0, None));
            e.0 += n;
            if e.1.is_none() {
                e.1 = c;
            }
        }
        for (k, (a, b)) in o.sections {
            let e = self.sections.entry(k).or_insert((0, 0));
            e.0 += a;
            e.1 += b;
        }
        self.notes.extend(o.notes);
        self.exhaustive_sections.extend(o.exhaustive_sections);
        self.section_samples.extend(o.section_samples);
        for (k, v) in o.section_secs {
            *self.section_secs.entry(k).or_insert(0.0) += v;
        }
    }
    pub fn distinct_fps(&mut self) -> u64 {
        self.fps.sort_unstable();
        self.fps.dedup();
        self.fps.len() as u64
    }
    /// Closes a section: everything counted since the previous close is attributed to `name`.
    pub fn section(&mut self, name: &str, mark: &mut (u64, u64)) {
        let d = self.distinct_fps() + self.nontrivial_enum;
        let e = self.sections.entry(name.to_string()).or_insert((0, 0));
        e.0 += self.evaluations - mark.0;
        e.1 += d - mark.1;
        *mark = (self.evaluations, d);
        let now = std::time::Instant::now();
        let dt = self.section_clock.map(|t| now.duration_since(t).as_secs_f64()).unwrap_or(0.0);
        self.section_clock = Some(now);
        *self.section_secs.entry(name.to_string()).or_insert(0.0) += (dt * 100.0).round() / 100.0;
        // keep a few samples per section so every generator shows up in the evidence
        let taken: Vec<(u64, Value)> = std::mem::take(&mut self.samples);
        for (_, v) in taken.into_iter().take(4) {
            let mut v = v;
            if let Value::Object(m) = &mut v {
                m.insert("section".into(), json!(name));
            }
            self.section_samples.push(v);
        }
    }
    pub fn has_fail(&self) -> bool {
        !self.fails.is_empty()
    }
}

// ---------------------------------------------------------------------------------------
// parallel sweep over 0..n

/// Runs `f(range, &mut stats)` over `0..n` split into chunks, on THREADS threads. Chunks
/// (see `stress` below for the concurrent-history driver)
/// whose start lies after the smallest failing index seen so far are skipped, so the
/// reported failure is the smallest failing index regardless of scheduling. `f` must
/// record failures with `order` = the failing index.
pub fn par_sweep<F>(n: u64, chunk: u64, f: F) -> Stats
where
    F: Fn(std::ops::Range<u64>, &mut Stats) + Sync,
{
    let next = AtomicU64::new(0);
    let min_fail = AtomicU64::new(u64::MAX);
    let total = Mutex::new(Stats::new());
    let nchunks = (n + chunk - 1) / chunk.max(1);
    std::thread::scope(|sc| {
        for _ in 0..THREADS.min(nchunks.max(1) as usize) {
            sc.spawn(|| {
                let mut st = Stats::new();
                loop {
                    let c = next.fetch_add(1, Ordering::Relaxed);
                    if c >= nchunks {
                        break;
                    }
                    let lo = c * chunk;
                    let hi = (lo + chunk).min(n);
                    if lo > min_fail.load(Ordering::Relaxed) {
                        continue;
                    }
                    let r = guarded(|| f(lo..hi, &mut st));
                    if let Err(m) = r {
                        st.fail(
                            lo,
                            Case::new("ENGINE", "harness-panic", vec![lo as i128, hi as i128], vec![m.clone()]),
                            format!("harness panicked outside a guarded library call: {m}"),
                        );
                    }
                    if let Some(first) = st.fails.first() {
                        min_fail.fetch_min(first.0, Ordering::Relaxed);
                    }
                }
                total.lock().unwrap().merge(st);
            });
        }
    });
    total.into_inner().unwrap()
}

// ---------------------------------------------------------------------------------------
// proptest driver

use proptest::strategy::{Strategy, ValueTree};
use proptest::test_runner::{Config, RngAlgorithm, TestCaseError, TestError, TestRng, TestRunner};

pub fn pt_rng(seed: u64, salt: &str, shard: u64) -> TestRng {
    let mut bytes = [0u8; 32];
    let mut sm = SplitMix(hash_bytes(seed, salt.as_bytes()) ^ mix64(shard));
    for k in 0..4 {
        bytes[k * 8..k * 8 + 8].copy_from_slice(&sm.next().to_le_bytes());
    }
    TestRng::from_seed(RngAlgorithm::ChaCha, &bytes)
}

/// Runs `cases` generated cases on each of `shards` threads. `judge` evaluates one value,
/// records statistics and returns `Err(msg)` on a violation; proptest then shrinks the value
/// and the minimal failing value is passed to `to_case`.
pub fn pt_run<S, J, C>(
    salt: &str,
    seed: u64,
    cases_per_shard: u32,
    shards: usize,
    strat: impl Fn() -> S + Sync,
    judge: J,
    to_case: C,
) -> Stats
where
    S: Strategy,
    S::Value: Clone + std::fmt::Debug,
    J: Fn(&S::Value, &mut Stats) -> Result<(), String> + Sync,
    C: Fn(&S::Value) -> Case + Sync,
{
    let total = Mutex::new(Stats::new());
    std::thread::scope(|sc| {
        for shard in 0..shards {
            let total = &total;
            let judge = &judge;
            let to_case = &to_case;
            let strat = &strat;
            sc.spawn(move || {
                let cfg = Config {
                    cases: cases_per_shard,
                    failure_persistence: None,
                    max_shrink_iters: 20_000,
                    max_global_rejects: 1_000_000,
                    ..Config::default()
                };
                let mut runner = TestRunner::new_with_rng(cfg, pt_rng(seed, salt, shard as u64));
                let st = std::cell::RefCell::new(Stats::new());
                let failed = std::cell::Cell::new(false);
                let res = runner.run(&strat(), |v| {
                    if failed.get() {
                        // shrinking: judge without touching the statistics
                        let mut scratch = Stats::new();
                        return match guarded(|| judge(&v, &mut scratch)) {
                            Ok(Ok(())) => Ok(()),
                            Ok(Err(m)) => Err(TestCaseError::fail(m)),
                            Err(m) => Err(TestCaseError::fail(m)),
                        };
                    }
                    let r = guarded(|| judge(&v, &mut st.borrow_mut()));
                    match r {
                        Ok(Ok(())) => Ok(()),
                        Ok(Err(m)) | Err(m) => {
                            failed.set(true);
                            Err(TestCaseError::fail(m))
                        }
                    }
                });
                let mut st = st.into_inner();
                match res {
                    Ok(()) => {}
                    Err(TestError::Fail(reason, v)) => {
                        let case = to_case(&v);
                        st.fail(shard as u64, case, format!("{reason} [shrunk by proptest] value={v:?}"));
                    }
                    Err(TestError::Abort(reason)) => {
                        st.notes.push(format!("proptest aborted in shard {shard}: {reason}"));
                    }
                }
                total.lock().unwrap().merge(st);
            });
        }
    });
    total.into_inner().unwrap()
}

/// Draws one value from a strategy with a deterministic rng (used to build pools).
pub fn pt_sample<S: Strategy>(s: &S, runner: &mut TestRunner) -> S::Value {
    s.new_tree(runner).expect("strategy").current()
}

// ---------------------------------------------------------------------------------------
// known findings

#[derive(Clone, Debug)]
pub struct Finding {
    pub id: String,
    pub status: String,
    pub property: String,
    pub what: String,
}

pub fn verif_root() -> std::path::PathBuf {
    if let Ok(p) = std::env::var("VERIF_ROOT") {
        return p.into();
    }
    // harness/ is the manifest dir at build time
    let p = std::path::Path::new(env!("CARGO_MANIFEST_DIR")).parent().unwrap().to_path_buf();
    p
}

pub fn load_findings() -> Vec<Finding> {
    let p = verif_root().join("known_findings.json");
    let txt = match std::fs::read_to_string(&p) {
        Ok(t) => t,
        Err(_) => return vec![],
    };
    let v: Value = serde_json::from_str(&txt).expect("known_findings.json is not valid JSON");
    let mut out = vec![];
    for f in v.get("findings").and_then(|x| x.as_array()).cloned().unwrap_or_default() {
        out.push(Finding {
            id: f["id"].as_str().unwrap_or("").to_string(),
            status: f["status"].as_str().unwrap_or("").to_string(),
            property: f["property"].as_str().unwrap_or("").to_string(),
            what: f["what"].as_str().unwrap_or("").to_string(),
        });
    }
    out
}

/// True when `id` is listed with status "known" (only those may be tolerated).
pub fn is_listed_known(findings: &[Finding], id: &str) -> bool {
    findings.iter().any(|f| f.id == id && f.status == "known")
}

// ---------------------------------------------------------------------------------------
// run context and reporting

pub struct Ctx {
    pub prop: &'static str,
    pub tier: String,
    pub seed: u64,
    pub thorough: bool,
    pub profile: &'static str,
    pub findings: Vec<Finding>,
}

impl Ctx {
    pub fn known_listed(&self, id: &str) -> bool {
        is_listed_known(&self.findings, id)
    }
}

pub fn profile_name() -> &'static str {
    if cfg!(debug_assertions) {
        "checked"
    } else {
        "release"
    }
}

pub struct Report {
    pub rule: String,
    pub assumptions: Vec<String>,
    pub exhaustive: bool,
    pub extra: Map<String, Value>,
}

/// Writes replay files, prints KNOWN-FINDING / VIOLATION lines, writes evidence. Returns the
/// process exit code.
pub fn finish(ctx: &Ctx, mut st: Stats, rep: Report, wall_s: f64) -> i32 {
    let root = verif_root();
    let mut violations: i64 = 0;
    let mut exit = 0;

    // known findings: tolerated only when listed in the committed file
    let known = std::mem::take(&mut st.known);
    let mut known_json = Map::new();
    for (id, (n, case)) in known {
        if ctx.known_listed(id) {
            let what = ctx.findings.iter().find(|f| f.id == id).map(|f| f.what.clone()).unwrap_or_default();
            println!("KNOWN-FINDING: property={} {} [{}; {} matching cases this run]", ctx.prop, what, id, n);
            known_json.insert(id.to_string(), json!({"cases": n, "first": case.map(|c| c.to_json())}));
        } else if let Some(c) = case {
            st.fail(0, c, format!("matches signature {id}, which is not listed as known in known_findings.json"));
        }
    }

    let mut fails = std::mem::take(&mut st.fails);
    {
        // the same minimal case found by several shards / sections is one violation
        let mut seen = std::collections::HashSet::new();
        fails.retain(|f| seen.insert(f.1.fingerprint()));
    }
    for (_, case, msg) in fails.iter() {
        violations += 1;
        exit = 1;
        let dir = root.join("replays").join(ctx.prop);
        let _ = std::fs::create_dir_all(&dir);
        let path = dir.join(format!("viol-{:016x}.json", case.fingerprint()));
        let mut j = case.to_json();
        j["message"] = json!(msg);
        j["found_by"] = json!({"tier": ctx.tier, "seed": ctx.seed, "profile": ctx.profile});
        let _ = std::fs::write(&path, serde_json::to_string_pretty(&j).unwrap() + "\n");
        println!("VIOLATION property={} replay={}", ctx.prop, path.display());
        println!("  detail: {}", msg.chars().take(1500).collect::<String>());
    }

    let distinct = st.distinct_fps() + st.nontrivial_enum;
    let mut samples: Vec<Value> = st.section_samples.clone();
    samples.extend(st.samples.iter().map(|x| x.1.clone()));
    let mut cov = Map::new();
    cov.insert("evaluations".into(), json!(st.evaluations));
    cov.insert("distinct_nontrivial".into(), json!(distinct));
    cov.insert("rule".into(), json!(rep.rule));
    cov.insert("samples".into(), json!(samples));
    cov.insert("exhaustive".into(), json!(rep.exhaustive));
    cov.insert("classes".into(), json!(st.classes.iter().map(|(k, v)| (k.to_string(), json!(v))).collect::<Map<_, _>>()));
    cov.insert(
        "sections".into(),
        json!(st
            .sections
            .iter()
            .map(|(k, v)| (k.clone(), json!({"evaluations": v.0, "distinct_nontrivial": v.1, "wall_s": st.section_secs.get(k).copied().unwrap_or(0.0)})))
            .collect::<Map<_, _>>()),
    );
    cov.insert("exhaustive_sections".into(), json!(st.exhaustive_sections));
    cov.insert("known_findings".into(), Value::Object(known_json));
    cov.insert("profile".into(), json!(ctx.profile));
    if !st.notes.is_empty() {
        cov.insert("notes".into(), json!(st.notes));
    }
    for (k, v) in rep.extra {
        cov.insert(k, v);
    }
    // statistics of the libFuzzer stage (thorough tier of C03, C05, C06, C19), written by tools/fuzz_stage.sh
    if let Ok(p) = std::env::var("VERIF_EXTRA") {
        if let Ok(t) = std::fs::read_to_string(&p) {
            if let Ok(v) = serde_json::from_str::<Value>(&t) {
                if let Some(n) = v.get("confirmed_violations").and_then(|x| x.as_i64()) {
                    violations += n;
                }
                cov.insert("libfuzzer".into(), v);
            }
        }
    }

    let mut ev = json!({
        "property_id": ctx.prop,
        "tier": ctx.tier,
        "seed": ctx.seed,
        "level": "exploration",
        "coverage": Value::Object(cov),
        "assumptions": rep.assumptions,
        "wall_s": (wall_s * 1000.0).round() / 1000.0,
        "violations": violations,
    });

    // merging with the part written by the other build profile (C03, C19)
    if let Ok(p) = std::env::var("VERIF_MERGE") {
        if let Ok(t) = std::fs::read_to_string(&p) {
            if let Ok(other) = serde_json::from_str::<Value>(&t) {
                ev = merge_evidence(ev, other);
            }
        }
    }

    let out = match std::env::var("VERIF_PART_OUT") {
        Ok(p) => std::path::PathBuf::from(p),
        Err(_) => root.join("evidence").join(format!("{}.json", ctx.prop)),
    };
    if let Some(d) = out.parent() {
        let _ = std::fs::create_dir_all(d);
    }
    let tmp = out.with_extension("json.tmp");
    std::fs::write(&tmp, serde_json::to_string_pretty(&ev).unwrap() + "\n").expect("write evidence");
    std::fs::rename(&tmp, &out).expect("rename evidence");

    println!(
        "{} {} profile={} seed={} evaluations={} distinct_nontrivial={} violations={} wall={:.1}s",
        ctx.prop, ctx.tier, ctx.profile, ctx.seed, ev["coverage"]["evaluations"], ev["coverage"]["distinct_nontrivial"], violations, wall_s
    );
    exit
}

fn merge_evidence(mut a: Value, b: Value) -> Value {
    let ea = a["coverage"]["evaluations"].as_u64().unwrap_or(0);
    let eb = b["coverage"]["evaluations"].as_u64().unwrap_or(0);
    let da = a["coverage"]["distinct_nontrivial"].as_u64().unwrap_or(0);
    let db = b["coverage"]["distinct_nontrivial"].as_u64().unwrap_or(0);
    let pa = a["coverage"]["profile"].as_str().unwrap_or("?").to_string();
    let pb = b["coverage"]["profile"].as_str().unwrap_or("?").to_string();
    let mut per = Map::new();
    per.insert(pa.clone(), json!({"evaluations": ea, "distinct_nontrivial": da, "wall_s": a["wall_s"], "classes": a["coverage"]["classes"], "sections": a["coverage"]["sections"]}));
    per.insert(pb.clone(), json!({"evaluations": eb, "distinct_nontrivial": db, "wall_s": b["wall_s"], "classes": b["coverage"]["classes"], "sections": b["coverage"]["sections"]}));
    a["coverage"]["evaluations"] = json!(ea + eb);
    // the two profiles explore the same generated cases: distinct cases = the larger set
    a["coverage"]["distinct_nontrivial"] = json!(da.max(db));
    a["coverage"]["profile"] = json!(format!("{pa}+{pb}"));
    a["coverage"]["per_profile"] = Value::Object(per);
    let wa = a["wall_s"].as_f64().unwrap_or(0.0);
    let wb = b["wall_s"].as_f64().unwrap_or(0.0);
    a["wall_s"] = json!(((wa + wb) * 1000.0).round() / 1000.0);
    let va = a["violations"].as_i64().unwrap_or(0);
    let vb = b["violations"].as_i64().unwrap_or(0);
    a["violations"] = json!(va + vb);
    a
}

/// Replays committed regression cases of a property through `eval`; failures are recorded.
pub fn run_replays(prop: &str, st: &mut Stats, eval: &dyn Fn(&Case) -> Verdict) {
    let dir = verif_root().join("replays").join(prop);
    let mut files: Vec<_> = match std::fs::read_dir(&dir) {
        Ok(rd) => rd.filter_map(|e| e.ok()).map(|e| e.path()).filter(|p| p.extension().map(|e| e == "json").unwrap_or(false)).collect(),
        Err(_) => return,
    };
    files.sort();
    for (k, p) in files.iter().enumerate() {
        let name = p.file_name().unwrap().to_string_lossy().to_string();
        // files named viol-* are outputs of earlier failing runs, not committed regressions:
        // they are replayed too (a still-failing one is reported again under the same name).
        let txt = match std::fs::read_to_string(p) {
            Ok(t) => t,
            Err(_) => continue,
        };
        let v: Value = match serde_json::from_str(&txt) {
            Ok(v) => v,
            Err(e) => {
                st.notes.push(format!("replay file {name} unreadable: {e}"));
                continue;
            }
        };
        let case = match Case::from_json(&v) {
            Ok(c) => c,
            Err(e) => {
                st.notes.push(format!("replay file {name} malformed: {e}"));
                continue;
            }
        };
        st.evaluations += 1;
        st.class("replayed-regression-case");
        st.fps.push(case.fingerprint());
        let verdict = match guarded(|| eval(&case)) {
            Ok(v) => v,
            Err(m) => Verdict::Fail(format!("harness panic while replaying: {m}")),
        };
        st.sample(k as u64, || json!({"replay": name, "case": case.to_json()}));
        st.verdict(verdict, k as u64, || case.clone());
    }
}

/// Concurrent histories: `threads` threads start together (barrier) and each performs `iters`
/// steps of `step(thread, &mut rng)`. Every thread draws from its own PRNG (seed ^ thread), so
/// the *work* is a pure function of the seed; only the interleaving is left to the scheduler.
/// Used to hit state the library might share between calls (memo tables, caches). Returns the
/// number of steps performed, or the first failure message.
pub fn stress<F>(seed: u64, threads: usize, iters: u64, step: F) -> Result<u64, String>
where
    F: Fn(usize, &mut SplitMix) -> Result<(), String> + Sync,
{
    let start = std::sync::Barrier::new(threads);
    let stop = std::sync::atomic::AtomicBool::new(false);
    let results: Vec<Result<u64, String>> = std::thread::scope(|sc| {
        let hs: Vec<_> = (0..threads)
            .map(|t| {
                let (start, stop, step) = (&start, &stop, &step);
                sc.spawn(move || -> Result<u64, String> {
                    let mut sm = SplitMix(seed ^ mix64(0x57e55 ^ t as u64));
                    let mut done = 0u64;
                    start.wait();
                    for _ in 0..iters {
                        if stop.load(Ordering::Relaxed) {
                            break;
                        }
                        match guarded(|| step(t, &mut sm)) {
                            Ok(Ok(())) => done += 1,
                            Ok(Err(m)) | Err(m) => {
                                stop.store(true, Ordering::Relaxed);
                                return Err(format!("thread {t} of {threads}: {m}"));
                            }
                        }
                    }
                    Ok(done)
                })
            })
            .collect();
        hs.into_iter().map(|h| h.join().unwrap_or_else(|_| Err("a worker thread panicked".into()))).collect()
    });
    let mut total = 0;
    for r in results {
        total += r?;
    }
    Ok(total)
}

/// A value for a concurrent history: thread `t` owns three days (derived from the seed) and
/// mostly stays on one of them; the value is of a seeded kind on that day.
pub fn stress_value(seed: u64, t: usize, sm: &mut SplitMix) -> (usize, i128) {
    use crate::model::cal::*;
    let c = cal();
    let own = |k: u64| c.first as i128 + (mix64(seed ^ mix64((t as u64) << 8 | k)) % c.len() as u64) as i128;
    // mostly one of the thread's three own days (memo hits), sometimes a fresh one (memo misses)
    let day = if sm.below(8) == 0 { own(3 + sm.below(1 << 20)) } else { own(sm.below(3)) };
    let sec = sm.below(86_400) as i128;
    match sm.below(8) {
        0 => (0, day),
        1 => (2, day * US_PER_DAY + sec * US_PER_SEC + sm.below(1_000_000) as i128),
        2 => (1, sec * US_PER_SEC + sm.below(1_000_000) as i128),
        3 => (5, (day.abs() % 90_000_000 * US_PER_DAY + sec * US_PER_SEC + sm.below(1_000_000) as i128) * if sec % 2 == 0 { 1 } else { -1 }),
        4 => (4, day * 37 % 2_136_000_000),
        _ => (3, day * US_PER_DAY + sec * US_PER_SEC),
    }
}

/// the provided methods of `Ord` (max, min, clamp - a type may override them) and sorting must
/// follow the same order as `cmp`; `want` is the reference order of x relative to y
pub fn ord_provided_ok<T: Ord + Copy>(x: T, y: T, want: std::cmp::Ordering) -> bool {
    let (lo, hi) = if want == std::cmp::Ordering::Greater { (y, x) } else { (x, y) };
    let mut v = [y, x, hi, lo];
    v.sort();
    let sorted_ok = v[0] == lo && v[3] == hi && (v[1] == lo || want == std::cmp::Ordering::Equal) && (v[2] == hi || want == std::cmp::Ordering::Equal);
    x.max(y) == hi
        && y.max(x) == hi
        && x.min(y) == lo
        && y.min(x) == lo
        && std::cmp::max(x, y) == hi
        && std::cmp::min(x, y) == lo
        && x.clamp(lo, hi) == x
        && y.clamp(lo, hi) == y
        && lo.clamp(hi, hi) == hi
        && hi.clamp(lo, lo) == lo
        && sorted_ok
}
