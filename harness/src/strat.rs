//! proptest strategies for raw counts and scalars. Every random choice of a generated case
//! is made by these strategies, so shrinking and seeding work.

use crate::model::cal::*;
use crate::model::text::Kind;
use crate::pools;
use proptest::prelude::*;

/// Index into a pool of size `len`, shrinking toward the front of the pool.
pub fn pick(len: usize) -> impl Strategy<Value = usize> {
    (0..len.max(1)).prop_map(|i| i)
}

fn edges(kind: Kind) -> Vec<i128> {
    match kind {
        Kind::Date => pools::date_edges(),
        Kind::Time => pools::time_edges(),
        Kind::Ts => {
            let mut v = vec![];
            let times = pools::time_edges();
            for d in pools::date_edges() {
                for t in &times {
                    v.push(d * US_PER_DAY + t);
                }
            }
            v
        }
        Kind::Ora => {
            let mut v = vec![];
            let times = pools::time_edges();
            for d in pools::date_edges() {
                for t in &times {
                    v.push((d * US_PER_DAY + t).div_euclid(US_PER_SEC) * US_PER_SEC);
                }
            }
            v
        }
        Kind::YM => pools::ym_edges(),
        Kind::DT => pools::dt_edges(),
    }
}

pub fn limits(kind: Kind) -> (i128, i128) {
    match kind {
        Kind::Date => (cal().first as i128, cal().last as i128),
        Kind::Time => (0, US_PER_DAY - 1),
        Kind::Ts => (ts_min(), ts_max()),
        Kind::Ora => (ts_min(), ora_max()),
        Kind::YM => (-YM_MAX, YM_MAX),
        Kind::DT => (-DT_MAX, DT_MAX),
    }
}

fn fix(kind: Kind, x: i128) -> i128 {
    let (lo, hi) = limits(kind);
    let x = x.clamp(lo, hi);
    if kind == Kind::Ora {
        x.div_euclid(US_PER_SEC) * US_PER_SEC
    } else {
        x
    }
}

/// In-range raw count of `kind`: boundary pool, uniform over the range, close to either
/// end of the range, or on a small scale around zero.
pub fn raw(kind: Kind) -> BoxedStrategy<i128> {
    let e = edges(kind);
    let (lo, hi) = limits(kind);
    let span = hi - lo;
    let n = e.len();
    prop_oneof![
        3 => (0..n).prop_map(move |i| e[i]),
        4 => (0..=span as u128).prop_map(move |d| fix(kind, lo + d as i128)),
        1 => (0..=100_000_000_000u64).prop_map(move |d| fix(kind, lo + d as i128)),
        1 => (0..=100_000_000_000u64).prop_map(move |d| fix(kind, hi - d as i128)),
        2 => (-200_000_000_000i64..=200_000_000_000i64).prop_map(move |d| fix(kind, d as i128)),
    ]
    .boxed()
}

pub fn any_i32() -> BoxedStrategy<i32> {
    let e = pools::i32_scalars();
    let n = e.len();
    prop_oneof![
        2 => (0..n).prop_map(move |i| e[i] as i32),
        3 => -4_000_000i32..=4_000_000,
        1 => any::<i32>(),
    ]
    .boxed()
}

/// Doubles by class.
pub fn any_f64() -> BoxedStrategy<f64> {
    let e = pools::f64_scalars();
    let n = e.len();
    prop_oneof![
        3 => (0..n).prop_map(move |i| e[i]),
        // small integers
        2 => (-1000i64..=1000).prop_map(|k| k as f64),
        // integers up to 2^53
        1 => (-(1i64 << 53)..=(1i64 << 53)).prop_map(|k| k as f64),
        // dyadic fractions k / 2^j
        3 => ((-(1i64 << 40)..=(1i64 << 40)), 0u32..=40).prop_map(|(k, j)| k as f64 / (1u64 << j) as f64),
        // decimals k / 10^j
        3 => ((-100_000_000i64..=100_000_000), 0i32..=9).prop_map(|(k, j)| k as f64 / 10f64.powi(j)),
        // fractions of a day on the microsecond scale (k + f) microseconds
        2 => ((-200_000_000_000i64..=200_000_000_000), 0u32..=1000).prop_map(|(k, f)| (k as f64 + f as f64 / 1000.0) / 86_400_000_000.0),
        // tiny and huge magnitudes
        1 => (any::<bool>(), -1074i32..=1023).prop_map(|(s, e)| { let v = 2f64.powi(e.max(-1022)) * if e < -1022 { 2f64.powi(e + 1022) } else { 1.0 }; if s { -v } else { v } }),
        // arbitrary bit patterns (includes NaN, infinities, subnormals)
        1 => any::<u64>().prop_map(f64::from_bits),
    ]
    .boxed()
}

/// Doubles `limit / x`-style: values for which `x * k` or `x / k` lands near `limit`.
pub fn edge_seeking(x: i128, limit: i128) -> Vec<f64> {
    let mut v = vec![];
    if x != 0 {
        let r = limit as f64 / x as f64;
        for d in [-3i64, -2, -1, 0, 1, 2, 3] {
            v.push(f64::from_bits((r.to_bits() as i64 + d) as u64));
            v.push(-f64::from_bits((r.to_bits() as i64 + d) as u64));
        }
        let q = x as f64 / limit as f64;
        for d in [-2i64, -1, 0, 1, 2] {
            v.push(f64::from_bits((q.to_bits() as i64 + d) as u64));
        }
    }
    v
}
