//! proptest strategies for raw counts and scalars. Every random choice of a generated case
//! is made by these strategies, so shrinking and seeding work.

use crate::model::cal::*;
use crate::model::text::Kind;
use crate::pools;
use proptest::prelude::*;

/// Index into a pool of size `len`, shrinking toward the front of the pool.
pub fn pick(len: usize) -> impl Strategy<Value = usize> {
    (0..len.max(1)).prop_map(|i| i)
}

fn edges(kind: Kind) -> Vec<i128> {
    match kind {
        Kind::Date => pools::date_edges(),
        Kind::Time => pools::time_edges(),
        Kind::Ts => {
            let mut v = vec![];
            let times = pools::time_edges();
            for d in pools::date_edges() {
                for t in &times {
                    v.push(d * US_PER_DAY + t);
                }
            }
            v
        }
        Kind::Ora => {
            let mut v = vec![];
            let times = pools::time_edges();
            for d in pools::date_edges() {
                for t in &times {
                    v.push((d * US_PER_DAY + t).div_euclid(US_PER_SEC) * US_PER_SEC);
                }
            }
            v
        }
        Kind::YM => pools::ym_edges(),
        Kind::DT => pools::dt_edges(),
    }
}

pub fn limits(kind: Kind) -> (i128, i128) {
    match kind {
        Kind::Date => (cal().first as i128, cal().last as i128),
        Kind::Time => (0, US_PER_DAY - 1),
        Kind::Ts => (ts_min(), ts_max()),
        Kind::Ora => (ts_min(), ora_max()),
        Kind::YM => (-YM_MAX, YM_MAX),
        Kind::DT => (-DT_MAX, DT_MAX),
    }
}

fn fix(kind: Kind, x: i128) -> i128 {
    let (lo, hi) = limits(kind);
    let x = x.clamp(lo, hi);
    if kind == Kind::Ora {
        x.div_euclid(US_PER_SEC) * US_PER_SEC
    } else {
        x
    }
}

/// In-range raw count of `kind`: boundary pool, uniform over the range, close to either
/// end of the range, or on a small scale around zero.
pub fn raw(kind: Kind) -> BoxedStrategy<i128> {
    let e = edges(kind);
    let (lo, hi) = limits(kind);
    let span = hi - lo;
    let n = e.len();
    prop_oneof![
        3 => (0..n).prop_map(move |i| e[i]),
        4 => (0..=span as u128).prop_map(move |d| fix(kind, lo + d as i128)),
        1 => (0..=100_000_000_000u64).prop_map(move |d| fix(kind, lo + d as i128)),
        1 => (0..=100_000_000_000u64).prop_map(move |d| fix(kind, hi - d as i128)),
        2 => (-200_000_000_000i64..=200_000_000_000i64).prop_map(move |d| fix(kind, d as i128)),
        // log-uniform magnitude: every order of magnitude of the count is equally likely
        2 => (0u32..=63, any::<u64>(), any::<bool>()).prop_map(move |(bits, x, neg)| {
            let m = if bits == 0 { 0 } else { (x >> (64 - bits)) as i128 };
            fix(kind, if neg { -m } else { m })
        }),
        // field-structured: built from (days, h, m, s, us) where every field is zero, at its
        // maximum or arbitrary - "round" values that uniform microsecond sampling never produces
        3 => (proptest::collection::vec((0u8..4, any::<u32>()), 5), any::<bool>()).prop_map(move |(f, neg)| {
            let field = |k: usize, max: u32, small: u32| -> i128 {
                let (sel, x) = f[k];
                (match sel {
                    0 => 0,
                    1 => max,
                    2 => x % (small + 1),
                    _ => x % (max + 1),
                }) as i128
            };
            let days = field(0, 3_652_000, 3);
            let t = field(1, 23, 1) * US_PER_HOUR + field(2, 59, 1) * US_PER_MIN + field(3, 59, 2) * US_PER_SEC + field(4, 999_999, 1);
            let v = match kind {
                Kind::YM => field(0, 2_136_000_000, 30),
                Kind::Date => days,
                Kind::Time => t,
                Kind::DT => days * US_PER_DAY + t,
                Kind::Ts | Kind::Ora => days * US_PER_DAY + t,
            };
            fix(kind, if neg { -v } else { v })
        }),
        // small leading field: day / year counts 0..=1200 with arbitrary lower fields
        2 => (0i128..=1200, any::<u64>(), any::<bool>()).prop_map(move |(f, x, neg)| {
            let v = match kind {
                Kind::YM => f * 12 + (x % 12) as i128,
                Kind::DT | Kind::Ts | Kind::Ora => f * US_PER_DAY + (x % US_PER_DAY as u64) as i128,
                Kind::Date => f,
                Kind::Time => (x % US_PER_DAY as u64) as i128,
            };
            fix(kind, if neg { -v } else { v })
        }),
    ]
    .boxed()
}

pub fn any_i32() -> BoxedStrategy<i32> {
    let e = pools::i32_scalars();
    let n = e.len();
    prop_oneof![
        2 => (0..n).prop_map(move |i| e[i] as i32),
        3 => -4_000_000i32..=4_000_000,
        1 => any::<i32>(),
    ]
    .boxed()
}

/// Doubles by class.
pub fn any_f64() -> BoxedStrategy<f64> {
    let e = pools::f64_scalars();
    let n = e.len();
    prop_oneof![
        3 => (0..n).prop_map(move |i| e[i]),
        // small integers
        2 => (-1000i64..=1000).prop_map(|k| k as f64),
        // integers up to 2^53
        1 => (-(1i64 << 53)..=(1i64 << 53)).prop_map(|k| k as f64),
        // dyadic fractions k / 2^j
        3 => ((-(1i64 << 40)..=(1i64 << 40)), 0u32..=40).prop_map(|(k, j)| k as f64 / (1u64 << j) as f64),
        // decimals k / 10^j
        3 => ((-100_000_000i64..=100_000_000), 0i32..=9).prop_map(|(k, j)| k as f64 / 10f64.powi(j)),
        // fractions of a day on the microsecond scale (k + f) microseconds
        2 => ((-200_000_000_000i64..=200_000_000_000), 0u32..=1000).prop_map(|(k, f)| (k as f64 + f as f64 / 1000.0) / 86_400_000_000.0),
        // tiny and huge magnitudes
        1 => (any::<bool>(), -1074i32..=1023).prop_map(|(s, e)| { let v = 2f64.powi(e.max(-1022)) * if e < -1022 { 2f64.powi(e + 1022) } else { 1.0 }; if s { -v } else { v } }),
        // arbitrary bit patterns (includes NaN, infinities, subnormals)
        1 => any::<u64>().prop_map(f64::from_bits),
    ]
    .boxed()
}

/// Doubles `limit / x`-style: values for which `x * k` or `x / k` lands near `limit`.
/// Factors tuned to the overflow boundary of the double itself: x * k and x / k clearly finite
/// (half the boundary), at the boundary, and clearly infinite (twice the boundary).
pub fn overflow_seeking(x: i128) -> Vec<f64> {
    let mut v = vec![];
    if x != 0 {
        let xf = (x as f64).abs();
        for scale in [0.25, 0.5, 1.0, 2.0, 4.0] {
            v.push(f64::MAX / xf * scale); // multiplier: product = MAX * scale
            v.push(xf / f64::MAX / scale); // divisor: quotient = MAX * scale
            v.push(-(xf / f64::MAX / scale));
        }
    }
    v.into_iter().filter(|k| k.is_finite()).collect()
}

/// scalars derived from the operand itself: the value as a double (a quotient of exactly +-1), small
/// multiples and fractions of it, its reciprocal - each with its neighbours and both signs
pub fn self_seeking(x: i128) -> Vec<f64> {
    let mut v = vec![];
    if x != 0 {
        let xf = x as f64;
        for r in [xf, xf / 2.0, xf * 2.0, xf / 3.0, xf / 10.0, 1.0 / xf, xf + 1.0, xf - 1.0] {
            for d in [-1i64, 0, 1] {
                let f = f64::from_bits((r.to_bits() as i64 + d) as u64);
                if f.is_finite() {
                    v.push(f);
                    v.push(-f);
                }
            }
        }
    }
    v
}

pub fn edge_seeking(x: i128, limit: i128) -> Vec<f64> {
    let mut v = vec![];
    if x != 0 {
        let r = limit as f64 / x as f64;
        for d in [-3i64, -2, -1, 0, 1, 2, 3] {
            v.push(f64::from_bits((r.to_bits() as i64 + d) as u64));
            v.push(-f64::from_bits((r.to_bits() as i64 + d) as u64));
        }
        let q = x as f64 / limit as f64;
        for d in [-2i64, -1, 0, 1, 2] {
            v.push(f64::from_bits((q.to_bits() as i64 + d) as u64));
        }
    }
    v
}
