#![no_main]
use libfuzzer_sys::fuzz_target;
use std::sync::OnceLock;

fn prop() -> &'static str {
    static P: OnceLock<String> = OnceLock::new();
    P.get_or_init(|| std::env::var("VERIF_FUZZ_PROP").unwrap_or_else(|_| "C13".to_string()))
}

fuzz_target!(|data: &[u8]| {
    if let Err(m) = sqldt_verif::fuzz_entry::values(prop(), data) {
        panic!("VIOLATION in fuzz target values ({}): {m}", prop());
    }
});
