#![no_main]
use libfuzzer_sys::fuzz_target;

fuzz_target!(|data: &[u8]| {
    if let Err(m) = sqldt_verif::fuzz_entry::parse(data) {
        panic!("VIOLATION in fuzz target parse: {m}");
    }
});
