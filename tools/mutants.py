#!/usr/bin/env python3
"""Sensitivity check: applies one small mutation at a time to a scratch copy of /repo, confirms that
the repository's own tests still pass, runs the quick check(s) of the affected properties from a
scratch copy of /verif against it, and expects exit 1 + a VIOLATION line.

usage: tools/mutants.py [--only ID[,ID..]] [--props C08,C09] [--keep] [--tier quick|thorough] [--skip-tests]
Scratch directory: /tmp/sqldt-mut (removed at the end unless --keep).
Results are appended to /verif/mutants/results.json.
"""
import json, os, shutil, subprocess, sys, time, argparse

SCRATCH = "/tmp/sqldt-mut"
ROOT = os.path.dirname(os.path.dirname(os.path.abspath(__file__)))

def load_catalogue():
    cat = []
    d = os.path.join(ROOT, "mutants")
    for f in sorted(os.listdir(d)):
        if f.endswith(".json") and f.startswith("cat"):
            cat.extend(json.load(open(os.path.join(d, f))))
    return cat

def sync():
    os.makedirs(SCRATCH, exist_ok=True)
    subprocess.run(["rsync", "-a", "--delete", "--exclude", "target", "--exclude", ".git", "/repo/", SCRATCH + "/repo/"], check=True)
    subprocess.run(["rsync", "-a", "--delete", "--exclude", "target", "--exclude", ".git", "--exclude", "evidence",                     ROOT + "/", SCRATCH + "/verif/"], check=True)
    os.makedirs(SCRATCH + "/verif/evidence", exist_ok=True)
    subprocess.run(["sed", "-i", 's|path = "/repo"|path = "%s/repo"|' % SCRATCH, SCRATCH + "/verif/harness/Cargo.toml"], check=True)
    subprocess.run("rm -f %s/verif/replays/*/viol-*" % SCRATCH, shell=True)

def apply(m):
    path = os.path.join(SCRATCH, "repo", m["file"])
    s = open(path).read()
    n = s.count(m["old"])
    want = m.get("count", 1)
    if n != want:
        raise SystemExit(f"mutant {m['id']}: pattern occurs {n} times in {m['file']}, expected {want}")
    if m.get("all"):
        s = s.replace(m["old"], m["new"])
    else:
        idx = m.get("nth", 0)
        pos = -1
        for _ in range(idx + 1):
            pos = s.index(m["old"], pos + 1)
        s = s[:pos] + m["new"] + s[pos + len(m["old"]):]
    open(path, "w").write(s)

def run(cmd, cwd, timeout=3600, env=None):
    e = dict(os.environ); e["CARGO_NET_OFFLINE"] = "true"
    if env: e.update(env)
    t = time.time()
    p = subprocess.run(cmd, cwd=cwd, shell=True, capture_output=True, text=True, timeout=timeout, env=e)
    return p.returncode, p.stdout + p.stderr, time.time() - t

def main():
    ap = argparse.ArgumentParser()
    ap.add_argument("--only"); ap.add_argument("--props"); ap.add_argument("--keep", action="store_true")
    ap.add_argument("--tier", default="quick"); ap.add_argument("--skip-tests", action="store_true")
    a = ap.parse_args()
    cat = load_catalogue()
    if a.only:
        ids = set(a.only.split(","))
        cat = [m for m in cat if m["id"] in ids]
    if a.props:
        ps = set(a.props.split(","))
        cat = [m for m in cat if ps & set(m["props"])]
    results = []
    for m in cat:
        sync()
        apply(m)
        rec = {"id": m["id"], "props": m["props"], "what": m.get("what", ""), "tier": a.tier}
        if not a.skip_tests:
            rc, out, dt = run("cargo test --offline --lib 2>&1 | grep -E '^test result|^error' | head -1", SCRATCH + "/repo",
                              env={"CARGO_TARGET_DIR": SCRATCH + "/repo-target"})
            rec["repo_tests"] = out.strip()
            if "0 failed" not in out:
                rec["status"] = "INVALID-MUTANT (repo tests fail or do not build)"
                print(json.dumps(rec)); results.append(rec); continue
        caught = {}
        for p in m["props"]:
            rc, out, dt = run(f"./run {p} {a.tier}", SCRATCH + "/verif")
            viol = [l for l in out.splitlines() if l.startswith("VIOLATION")]
            detail = [l for l in out.splitlines() if l.strip().startswith("detail:")]
            caught[p] = {"rc": rc, "violations": len(viol), "secs": round(dt, 1), "detail": (detail[0][:300] if detail else "")}
            if rc not in (0, 1):
                caught[p]["tail"] = out[-600:]
        rec["checks"] = caught
        rec["status"] = "CAUGHT" if all(v["rc"] == 1 and v["violations"] > 0 for v in caught.values()) else (
            "PARTLY" if any(v["rc"] == 1 for v in caught.values()) else "MISSED")
        print(json.dumps(rec), flush=True)
        results.append(rec)
    os.makedirs(os.path.join(ROOT, "mutants"), exist_ok=True)
    rp = os.path.join(ROOT, "mutants", "results.json")
    old = json.load(open(rp)) if os.path.exists(rp) else {}
    for r in results:
        old[r["id"] + "@" + r["tier"]] = r
    json.dump(old, open(rp, "w"), indent=1, sort_keys=True)
    if not a.keep:
        shutil.rmtree(SCRATCH, ignore_errors=True)
    bad = [r for r in results if r["status"] != "CAUGHT"]
    print(f"{len(results) - len(bad)}/{len(results)} caught")
    sys.exit(1 if bad else 0)

main()
