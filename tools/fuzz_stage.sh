#!/bin/bash
# tools/fuzz_stage.sh <target> <property> <seed> <runs-per-job> <jobs> <out.json>
# Coverage-guided libFuzzer campaign (cargo-fuzz, overflow checks + debug assertions on) with the
# semantic oracle inside the target. Fixed -runs / -seed, fresh corpus seeded from fuzz/seeds.
# A build failure, time-out or unconfirmed crash is *inconclusive* (recorded, exit 0); a crash that
# the plain harness binary reproduces is a violation (exit 1, VIOLATION line printed).
set -u
ROOT="$(cd "$(dirname "$0")/.." && pwd)"
target="$1"; prop="$2"; seed="$3"; runs="$4"; jobs="$5"; out="$6"
# the `values` target takes its oracle set from VERIF_FUZZ_PROP and its artifacts are named values.<prop>
label="$target"; extra=""
if [ "$target" = values ]; then export VERIF_FUZZ_PROP="$prop"; label="values.$prop"; extra="-use_value_profile=1"; fi
export CARGO_NET_OFFLINE=true
work="$ROOT/target/fuzz-work/$label"
rm -rf "$work"; mkdir -p "$work/corpus" "$work/artifacts" "$work/logs"
cp "$ROOT/fuzz/seeds/$target/"* "$work/corpus/" 2>/dev/null
status="ok"; execs=0; crashes=0; confirmed=0; cov=0
lfseed=$(( (seed % 2000000000) + 1 ))
if ! (cd "$ROOT/fuzz" && cargo +nightly fuzz build --fuzz-dir . "$target" >"$work/build.log" 2>&1); then
  status="inconclusive: cargo fuzz build failed (see $work/build.log)"
else
  maxlen=256; case "$target" in parse) maxlen=420;; roundtrip) maxlen=300;; values) maxlen=26;; esac
  bin=$(ls "$ROOT"/fuzz/target/*/release/"$target" 2>/dev/null | head -1)
  if [ -z "$bin" ]; then
    status="inconclusive: fuzz binary not found after build"
  else
    # independent deterministic jobs: job j uses seed S+j and its own copy of the seed corpus
    pids=""
    for j in $(seq 1 "$jobs"); do
      mkdir -p "$work/corpus-$j"; cp "$work/corpus/"* "$work/corpus-$j/" 2>/dev/null
      ( cd "$work/logs" && timeout 3000 "$bin" "$work/corpus-$j" -runs="$runs" -seed=$((lfseed + j)) -max_len="$maxlen" -len_control=0 \
          -artifact_prefix="$work/artifacts/j$j-" $extra -print_final_stats=1 -timeout=20 -rss_limit_mb=4096 >"$work/logs/fuzz-$j.log" 2>&1; echo $? >"$work/logs/rc-$j" ) &
      pids="$pids $!"
    done
    wait $pids
    for j in $(seq 1 "$jobs"); do
      rc=$(cat "$work/logs/rc-$j" 2>/dev/null || echo 1)
      [ "$rc" = 124 ] && status="inconclusive: a fuzz job hit the wall-clock guard"
    done
  fi
  execs=$(grep -h "stat::number_of_executed_units" "$work"/logs/fuzz-*.log 2>/dev/null | awk '{s+=$2} END{print s+0}')
  cov=$(grep -ho "cov: [0-9]*" "$work"/logs/fuzz-*.log 2>/dev/null | awk '{if($2>m)m=$2} END{print m+0}')
  for a in "$work"/artifacts/*; do
    [ -f "$a" ] || continue
    crashes=$((crashes+1))
    h=$(sha1sum "$a" | cut -c1-16)
    mkdir -p "$ROOT/replays/$prop"
    dest="$ROOT/replays/$prop/fuzz-$label-$h.bin"
    cp "$a" "$dest"
    r1=0; r2=0
    "$ROOT/target/checked/sqldt-verif" replay "$dest" >"$work/replay.log" 2>&1 || r1=$?
    "$ROOT/target/release/sqldt-verif" replay "$dest" >>"$work/replay.log" 2>&1 || r2=$?
    if [ $r1 -eq 1 ] || [ $r2 -eq 1 ]; then
      confirmed=$((confirmed+1))
      echo "VIOLATION property=$prop replay=$dest"
      grep -m1 "detail:" "$work/replay.log"
    else
      rm -f "$dest"   # not reproduced by the plain harness (time-out / OOM artifact): inconclusive
      status="inconclusive: $crashes libFuzzer artifact(s), not all reproduced by the harness"
    fi
  done
fi
cat >"$out" <<JSON
{"engine":"libFuzzer via cargo-fuzz (overflow checks and debug assertions on)","target":"$label","jobs":$jobs,"runs_per_job":$runs,"seed":$lfseed,"executions":$execs,"max_coverage_edges":$cov,"artifacts":$crashes,"confirmed_violations":$confirmed,"status":"$status"}
JSON
[ $confirmed -gt 0 ] && exit 1
exit 0
