#!/usr/bin/env python3
"""Systematic (operator) mutation of /repo/src to measure the sensitivity of the quick tier.

  tools/automut.py list                       print the number of mutation sites per file / operator
  tools/automut.py run [--count N] [--seed S] [--files a.rs,b.rs] [--tier quick]
                                              sample N mutants (seeded shuffle, round-robin over files),
                                              and for each one, in a scratch copy (/tmp/sqldt-automut):
                                                1. apply it, build with all features        (else: no-compile)
                                                2. run the repository's own tests + doctests   (fail: killed-by-repo-tests)
                                                3. run the registered checks cheapest-first until one exits 1
                                              Results accumulate in /verif/mutants/auto-results.json (resumable).
  tools/automut.py report                     summary table of auto-results.json

A mutant that passes the repository's tests and every check is a *survivor*: either equivalent (no observable
change on safe inputs) or a gap. Survivors are reviewed by hand (DESIGN.md 10.4).
The scratch directory is removed at the end.
"""
import argparse, hashlib, json, os, random, re, shutil, subprocess, sys, time

ROOT = os.path.dirname(os.path.dirname(os.path.abspath(__file__)))
SCRATCH = os.environ.get("AUTOMUT_SCRATCH", "/tmp/sqldt-automut")
RESULTS = os.path.join(ROOT, "mutants", "auto-results.json")
FILES = ["common.rs", "date.rs", "time.rs", "timestamp.rs", "interval.rs", "oracle.rs", "format.rs", "serialize.rs"]
# cheapest first (quick-tier wall times measured on the unchanged tree)
ORDER = ["C15", "C12", "C13", "C07", "C01", "C14", "C10", "C08", "C02", "C04", "C06", "C11", "C05", "C09", "C16", "C03", "C19", "C17", "C18"]
OWN = {
    "common.rs": ["C01", "C07", "C10", "C02"],
    "date.rs": ["C01", "C10", "C11", "C09", "C08", "C17", "C02"],
    "time.rs": ["C07", "C12", "C14", "C02"],
    "timestamp.rs": ["C07", "C08", "C10", "C11", "C09", "C17", "C16", "C02"],
    "interval.rs": ["C13", "C14", "C12", "C08", "C02"],
    "oracle.rs": ["C16", "C17", "C15", "C08", "C09", "C02"],
    "format.rs": ["C04", "C06", "C05", "C19", "C18", "C03", "C15"],
    "serialize.rs": ["C15"],
}

REL = [(" <= ", " < "), (" < ", " <= "), (" >= ", " > "), (" > ", " >= "), (" == ", " != "), (" != ", " == ")]
ARI = [(" + ", " - "), (" - ", " + "), (" * ", " / "), (" / ", " * "), (" % ", " / "), (" += ", " -= "), (" -= ", " += ")]
LOG = [(" && ", " || "), (" || ", " && ")]
WORDS = [("div_euclid", "wrapping_div"), ("rem_euclid", "wrapping_rem"), ("checked_add", "checked_sub"), ("checked_sub", "checked_add"),
         (".is_negative()", ".is_positive()"), ("true", "false"), ("false", "true"), (".min(", ".max("), (".max(", ".min("),
         (".floor()", ".ceil()"), (".round()", ".trunc()"), (".trunc()", ".round()"), (".abs()", ""), (".negate()", ""),
         ("-self.", "self."), ("Some(true)", "Some(false)"), ("Some(false)", "Some(true)")]
NUM = re.compile(r"(?<![A-Za-z_0-9.])(\d[\d_]*)(?![\d_]*[A-Za-z.]|\.\d)")


def code_lines(path):
    """(line number, text) of mutable lines: before the test module, no comments / attributes / use / const generics."""
    out = []
    for i, l in enumerate(open(path).read().split("\n")):
        s = l.strip()
        if s.startswith("#[cfg(test)]"):
            break
        if not s or s.startswith("//") or s.startswith("#[") or s.startswith("use ") or s.startswith("///") or s.startswith("*") or s.startswith("/*"):
            continue
        if 'cfg(feature = "verif-hooks")' in l or "verif_hooks" in l:
            continue
        out.append((i, l))
    return out


def strip_strings(l):
    """positions inside string literals / trailing comments are not mutated"""
    mask = [True] * len(l)
    ins = False
    i = 0
    while i < len(l):
        c = l[i]
        if not ins and l.startswith("//", i):
            for k in range(i, len(l)):
                mask[k] = False
            break
        if c == '"' and (i == 0 or l[i - 1] != "\\"):
            ins = not ins
            mask[i] = False
        elif ins:
            mask[i] = False
        i += 1
    return mask


def sites():
    res = []
    for f in FILES:
        p = os.path.join("/repo/src", f)
        for ln, l in code_lines(p):
            mask = strip_strings(l)
            for group, ops in (("rel", REL), ("ari", ARI), ("log", LOG), ("word", WORDS)):
                for old, new in ops:
                    start = 0
                    while True:
                        k = l.find(old, start)
                        if k < 0:
                            break
                        start = k + 1
                        if not all(mask[k:k + len(old)]):
                            continue
                        if group == "rel" and ("->" in l[max(0, k - 2):k + 3] or "=>" in l[max(0, k - 2):k + 4]):
                            continue
                        if old in ("true", "false") and (l[k - 1:k].isalnum() or l[k + len(old):k + len(old) + 1].isalnum() or l[k - 1:k] == "_"):
                            continue
                        res.append({"file": f, "line": ln, "col": k, "old": old, "new": new, "op": group})
            for m in NUM.finditer(l):
                if not all(mask[m.start():m.end()]):
                    continue
                txt = m.group(1)
                pre = l[:m.start()]
                # not in array types / tuple indices / type names
                if pre.endswith("[") and "; " in l[m.end():m.end() + 2]:
                    continue
                if pre.rstrip().endswith(";") and l[m.end():m.end() + 1] == "]":
                    continue
                try:
                    v = int(txt.replace("_", ""))
                except ValueError:
                    continue
                for nv in (v + 1, v - 1):
                    if nv < 0:
                        continue
                    res.append({"file": f, "line": ln, "col": m.start(), "old": txt, "new": str(nv), "op": "const"})
    for r in res:
        r["id"] = "%s:%d:%d:%s>%s" % (r["file"], r["line"] + 1, r["col"], r["old"].strip(), r["new"].strip())
    return res


def sh(cmd, cwd, timeout=1800, env=None):
    e = dict(os.environ)
    e["CARGO_NET_OFFLINE"] = "true"
    if env:
        e.update(env)
    t = time.time()
    try:
        p = subprocess.run(cmd, cwd=cwd, shell=True, capture_output=True, text=True, timeout=timeout, env=e)
        return p.returncode, p.stdout + p.stderr, round(time.time() - t, 1)
    except subprocess.TimeoutExpired:
        return 124, "timeout", round(time.time() - t, 1)


def sync():
    os.makedirs(SCRATCH, exist_ok=True)
    subprocess.run(["rsync", "-a", "--delete", "--exclude", "target", "--exclude", ".git", "/repo/", SCRATCH + "/repo/"], check=True)
    subprocess.run(["rsync", "-a", "--delete", "--exclude", "target", "--exclude", ".git", "--exclude", "evidence", "--exclude", "seeded", "--exclude", "fuzz/corpus",
                    "--exclude", "fuzz/artifacts", "--exclude", "mutants", ROOT + "/", SCRATCH + "/verif/"], check=True)
    os.makedirs(SCRATCH + "/verif/evidence", exist_ok=True)
    subprocess.run(["sed", "-i", 's|path = "/repo"|path = "%s/repo"|' % SCRATCH, SCRATCH + "/verif/harness/Cargo.toml"], check=True)
    subprocess.run("rm -f %s/verif/replays/*/viol-* %s/verif/replays/*/fuzz-*crash*" % (SCRATCH, SCRATCH), shell=True)


def apply(m):
    p = os.path.join(SCRATCH, "repo", "src", m["file"])
    lines = open(p).read().split("\n")
    l = lines[m["line"]]
    assert l[m["col"]:m["col"] + len(m["old"])] == m["old"], (m, l)
    lines[m["line"]] = l[:m["col"]] + m["new"] + l[m["col"] + len(m["old"]):]
    open(p, "w").write("\n".join(lines))
    return l.strip(), lines[m["line"]].strip()


def cmd_run(a):
    allsites = sites()
    if a.files:
        keep = set(a.files.split(","))
        allsites = [s for s in allsites if s["file"] in keep]
    rnd = random.Random(a.seed)
    strata = {}
    for s in allsites:
        strata.setdefault((s["file"], s["op"]), []).append(s)
    keys = sorted(strata)
    for k in keys:
        rnd.shuffle(strata[k])
    picked = []
    while len(picked) < a.count and any(strata.values()):
        for k in keys:  # round-robin over (file, operator) strata
            if strata[k] and len(picked) < a.count:
                picked.append(strata[k].pop())
    old = json.load(open(RESULTS)) if os.path.exists(RESULTS) else {}
    env = {"CARGO_TARGET_DIR": SCRATCH + "/repo-target"}
    for m in picked:
        if m["id"] in old:
            continue
        sync()
        before, after = apply(m)
        rec = {"id": m["id"], "file": m["file"], "line": m["line"] + 1, "op": m["op"], "before": before, "after": after}
        rc, out, dt = sh("cargo build --offline --all-features 2>&1 | grep -E '^error' | head -3", SCRATCH + "/repo", env=env)
        if out.strip():
            rec["status"] = "no-compile"
        else:
            rc, out, dt = sh("cargo test --offline --all-features 2>&1 | grep -E '^test result|^error' | head -4", SCRATCH + "/repo", env=env, timeout=900)
            rec["repo_tests"] = out.strip().replace("\n", " | ")[:300]
            if "FAILED" in out or "error" in out or "timeout" in out or "test result" not in out:
                rec["status"] = "killed-by-repo-tests"
            else:
                order = [p for p in ORDER if p in OWN[m["file"]]] + [p for p in ORDER if p not in OWN[m["file"]]]
                rec["checks_run"] = []
                rec["status"] = "survived"
                for p in order:
                    rc, out, dt = sh(f"./run {p} {a.tier}", SCRATCH + "/verif", timeout=1500)
                    rec["checks_run"].append([p, rc, dt])
                    if rc == 1:
                        det = [l.strip() for l in out.splitlines() if l.strip().startswith("detail:")]
                        rec["status"] = "caught"
                        rec["caught_by"] = p
                        rec["detail"] = det[0][:300] if det else ""
                        break
                    if rc != 0:
                        rec.setdefault("inconclusive", []).append([p, rc, out[-300:]])
        print(json.dumps(rec), flush=True)
        old = json.load(open(RESULTS)) if os.path.exists(RESULTS) else {}
        old[m["id"]] = rec
        json.dump(old, open(RESULTS, "w"), indent=1, sort_keys=True)
    shutil.rmtree(SCRATCH, ignore_errors=True)


def cmd_report():
    old = json.load(open(RESULTS))
    tot = {}
    for r in old.values():
        tot[r["status"]] = tot.get(r["status"], 0) + 1
    print(tot)
    byp = {}
    for r in old.values():
        if r["status"] == "caught":
            byp[r["caught_by"]] = byp.get(r["caught_by"], 0) + 1
    print("first catching check:", dict(sorted(byp.items())))
    for r in old.values():
        if r["status"] == "survived":
            print("SURVIVOR", r["id"], "|", r["before"], "=>", r["after"])


def main():
    ap = argparse.ArgumentParser()
    ap.add_argument("cmd")
    ap.add_argument("--count", type=int, default=40)
    ap.add_argument("--seed", type=int, default=1)
    ap.add_argument("--files")
    ap.add_argument("--tier", default="quick")
    a = ap.parse_args()
    if a.cmd == "list":
        s = sites()
        c = {}
        for x in s:
            c[(x["file"], x["op"])] = c.get((x["file"], x["op"]), 0) + 1
        for k in sorted(c):
            print(k, c[k])
        print("total", len(s))
    elif a.cmd == "run":
        cmd_run(a)
    elif a.cmd == "report":
        cmd_report()
    else:
        print(__doc__)
        sys.exit(2)


main()
