#!/usr/bin/env python3
"""False-alarm test: behaviour-preserving changes to /repo (written by sub-agents that saw only the
property texts) must leave every check silent.

  tools/refactors.py import <worktree> <id>   copy patch.diff / meta.json into /verif/refactors/<id>/ and confirm in a
                                              scratch copy that the patch applies, builds with all features and
                                              passes the repository's tests
  tools/refactors.py run [<id> ...] [--tier quick]
                                              apply each patch to a scratch copy of /repo (next to a scratch copy of
                                              /verif) and run all 19 checks; every check must exit 0. A check that
                                              exits 1 is either a false alarm of the machinery or a genuine slip of
                                              the refactoring - to be adjudicated by hand (DESIGN.md 10.6).
Scratch: $REFAC_SCRATCH (default /tmp/sqldt-refac), removed at the end.
"""
import argparse, json, os, shutil, subprocess, sys, time

ROOT = os.path.dirname(os.path.dirname(os.path.abspath(__file__)))
SCRATCH = os.environ.get("REFAC_SCRATCH", "/tmp/sqldt-refac")
ALL = ["C%02d" % i for i in range(1, 20)]


def sh(cmd, cwd=None, timeout=7200, env=None):
    e = dict(os.environ)
    e["CARGO_NET_OFFLINE"] = "true"
    if env:
        e.update(env)
    t = time.time()
    p = subprocess.run(cmd, cwd=cwd, shell=True, capture_output=True, text=True, timeout=timeout, env=e)
    return p.returncode, p.stdout + p.stderr, round(time.time() - t, 1)


def sync():
    os.makedirs(SCRATCH, exist_ok=True)
    subprocess.run(["rsync", "-a", "--delete", "--exclude", "target", "--exclude", ".git", "/repo/", SCRATCH + "/repo/"], check=True)
    subprocess.run(["rsync", "-a", "--delete", "--exclude", "target", "--exclude", ".git", "--exclude", "evidence", "--exclude", "seeded", "--exclude", "refactors",
                    "--exclude", "mutants", "--exclude", "fuzz/corpus", "--exclude", "fuzz/artifacts", ROOT + "/", SCRATCH + "/verif/"], check=True)
    os.makedirs(SCRATCH + "/verif/evidence", exist_ok=True)
    subprocess.run(["sed", "-i", 's|path = "/repo"|path = "%s/repo"|' % SCRATCH, SCRATCH + "/verif/harness/Cargo.toml"], check=True)
    subprocess.run("rm -f %s/verif/replays/*/viol-* %s/verif/replays/*/fuzz-*crash*" % (SCRATCH, SCRATCH), shell=True)


def cmd_import(wt, rid):
    d = os.path.join(ROOT, "refactors", rid)
    os.makedirs(d, exist_ok=True)
    shutil.copy(os.path.join(wt, "patch.diff"), d)
    meta = json.load(open(os.path.join(wt, "meta.json")))
    sync()
    repo = SCRATCH + "/repo"
    env = {"CARGO_TARGET_DIR": SCRATCH + "/repo-target"}
    conf = {}
    rc, out, _ = sh(f"patch -p1 < {d}/patch.diff", repo)
    conf["patch_applies"] = rc == 0
    rc, out, _ = sh("cargo test --offline --all-features 2>&1 | grep -E '^test result|^error' | head -4", repo, env=env)
    conf["repo_tests_all_features"] = out.strip().replace("\n", " | ")
    rc, out, _ = sh("cargo test --offline --lib 2>&1 | grep -E '^test result|^error' | head -2", repo, env=env)
    conf["repo_tests_default"] = out.strip()
    rc, out, _ = sh("git diff --stat --no-index /repo/src src | tail -1", repo)
    conf["size"] = out.strip()
    conf["confirmed"] = conf["patch_applies"] and "FAILED" not in conf["repo_tests_all_features"] and "error" not in conf["repo_tests_all_features"] and "52 passed" in conf["repo_tests_default"]
    meta["confirmation"] = conf
    json.dump(meta, open(os.path.join(d, "meta.json"), "w"), indent=1)
    print(json.dumps(conf, indent=1))
    shutil.rmtree(SCRATCH, ignore_errors=True)
    return 0 if conf["confirmed"] else 1


def cmd_run(ids, tier, props):
    if not ids:
        ids = sorted(os.listdir(os.path.join(ROOT, "refactors")))
    for rid in ids:
        d = os.path.join(ROOT, "refactors", rid)
        if not os.path.exists(os.path.join(d, "patch.diff")):
            continue
        sync()
        rc, out, _ = sh(f"patch -p1 < {d}/patch.diff", SCRATCH + "/repo")
        if rc != 0:
            print(rid, "patch does not apply:", out[-300:])
            continue
        rp = os.path.join(d, "result.json")
        old = json.load(open(rp)) if os.path.exists(rp) else {}
        for p in props:
            rc, out, dt = sh(f"./run {p} {tier}", SCRATCH + "/verif")
            det = [l.strip() for l in out.splitlines() if l.strip().startswith("detail:")]
            old.setdefault(tier, {})[p] = {"rc": rc, "secs": dt, "detail": [x[:500] for x in det[:3]]}
            if rc not in (0, 1):
                old[tier][p]["tail"] = out[-500:]
            print(rid, p, rc, dt, (det[0][:300] if det else ""), flush=True)
        old["alarms_" + tier] = sorted(k for k, v in old[tier].items() if v["rc"] != 0)
        json.dump(old, open(rp, "w"), indent=1, sort_keys=True)
        print(rid, "alarms:", old["alarms_" + tier], flush=True)
    shutil.rmtree(SCRATCH, ignore_errors=True)
    return 0


def main():
    ap = argparse.ArgumentParser()
    ap.add_argument("cmd")
    ap.add_argument("args", nargs="*")
    ap.add_argument("--tier", default="quick")
    ap.add_argument("--props")
    a = ap.parse_args()
    if a.cmd == "import":
        sys.exit(cmd_import(a.args[0], a.args[1]))
    if a.cmd == "run":
        sys.exit(cmd_run(a.args, a.tier, a.props.split(",") if a.props else ALL))
    print(__doc__)
    sys.exit(2)


main()
