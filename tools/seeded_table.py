#!/usr/bin/env python3
"""Regenerates the seeded-defect table in DESIGN.md (between the SEEDED-TABLE markers) and seeded/README.md."""
import json, os, glob
ROOT = os.path.dirname(os.path.dirname(os.path.abspath(__file__)))
rows = []
for d in sorted(glob.glob(os.path.join(ROOT, "seeded", "*"))):
    if not os.path.exists(os.path.join(d, "meta.json")): continue
    m = json.load(open(os.path.join(d, "meta.json")))
    r = json.load(open(os.path.join(d, "result.json"))) if os.path.exists(os.path.join(d, "result.json")) else {}
    sid = os.path.basename(d)
    q = ", ".join(r.get("caught_by_quick", [])) or ("-" if "quick" in r else "not run")
    t = ", ".join(r.get("caught_by_thorough", [])) or ("-" if "thorough" in r else "")
    det = ""
    prop = m.get("property", sid[:3])
    for tier in ("quick", "thorough"):
        if tier in r and prop in r[tier] and r[tier][prop].get("detail"):
            det = r[tier][prop]["detail"].replace("detail:", "").strip()[:160]; break
    summ = (m.get("summary", "") or "").replace("\n", " ").replace("|", "/")
    need = (m.get("needs_to_manifest", "") or "").replace("\n", " ").replace("|", "/")
    rows.append((sid, prop, summ[:260], need[:220], q, t, det.replace("|", "/")))
out = ["| id | property | change | needs, to manifest | caught by (quick) | caught by (thorough) | first report of the property's own check |", "|---|---|---|---|---|---|---|"]
for r in rows:
    out.append("| %s | %s | %s | %s | %s | %s | %s |" % r)
table = "\n".join(out)
open(os.path.join(ROOT, "seeded", "README.md"), "w").write("# Seeded defects (written by independent sub-agents from the property text only)\n\n" + table + "\n")
p = os.path.join(ROOT, "DESIGN.md")
s = open(p).read()
a, b = "<!-- SEEDED-TABLE-BEGIN -->", "<!-- SEEDED-TABLE-END -->"
if a in s and b in s:
    s = s[:s.index(a) + len(a)] + "\n" + table + "\n" + s[s.index(b):]
    open(p, "w").write(s)
print(len(rows), "seeded defects")
