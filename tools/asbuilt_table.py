#!/usr/bin/env python3
"""Regenerates the 'as built' table in DESIGN.md (between ASBUILT markers) from the current evidence files."""
import json, os, glob
ROOT = os.path.dirname(os.path.dirname(os.path.abspath(__file__)))
rows = ["| property | tier of this evidence | evaluations | distinct non-trivial | wall s | sections (evaluations) |", "|---|---|---|---|---|---|"]
for f in sorted(glob.glob(os.path.join(ROOT, "evidence", "C*.json"))):
    e = json.load(open(f)); c = e["coverage"]
    secs = ", ".join("%s %s" % (k, format(v["evaluations"], ",")) for k, v in c.get("sections", {}).items() if k != "replays")
    rows.append("| %s | %s (%s) | %s | %s | %s | %s |" % (e["property_id"], e["tier"], c.get("profile", ""), format(c["evaluations"], ","), format(c["distinct_nontrivial"], ","), e["wall_s"], secs))
table = "\n".join(rows)
p = os.path.join(ROOT, "DESIGN.md"); s = open(p).read()
a, b = "<!-- ASBUILT-BEGIN -->", "<!-- ASBUILT-END -->"
if a in s and b in s:
    s = s[:s.index(a) + len(a)] + "\n" + table + "\n" + s[s.index(b):]
    open(p, "w").write(s)
print(table[:600])
