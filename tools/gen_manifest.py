#!/usr/bin/env python3
"""Regenerates /verif/MANIFEST.json from the table below (keeps the file valid and in sync)."""
import json, os, sys
ROOT = os.path.dirname(os.path.dirname(os.path.abspath(__file__)))

# id -> (technique, level text, level note, design ref)
CHECKS = {
 "C01": ("exhaustive enumeration vs. independently walked calendar (model-based differential)",
         "Complete enumeration of the stated finite domain (all 3,652,059 day numbers, their out-of-range neighbours, the whole (y,m,d) grid) against a calendar built by day-by-day stepping; this decides the property for every input it quantifies over, short of a bug shared by the 60-line reference walk.",
         "Trusted: the reference walk (month lengths + leap rule + Thursday anchor as written in the statement), the Rust toolchain. Both tiers are exhaustive.",
         "4/C01"),
 "C07": ("exhaustive enumeration + boundary-pool pairs vs. i128 div/rem model (model-based differential)",
         "Every date x critical times of day, every second of the day, every microsecond at three seconds, the full (h,m,s,us) validity grid and neighbour/random ordering pairs are compared with integer arithmetic n*86400e6+t; complete for the date and second axes, sampled (boundary pool + seeded) for arbitrary instants.",
         "Trusted: walked calendar, i128 arithmetic, std DefaultHasher for hash consistency. Arbitrary (date, microsecond) pairs away from the critical times are sampled, not enumerated.",
         "4/C07"),
 "C08": ("pool cross-product sweeps + proptest with shrinking vs. exact i128 / dyadic-rational arithmetic",
         "Each of the 37 linear operations is crossed with boundary+seeded operand pools and proptest-generated 64-bit operands and judged by the biconditional 'Ok(exact) <=> exact result in range'; add_days/sub_days are judged against the exact set of admissible microsecond offsets computed without floating point. Sampled over 64-bit operands; boundary regions are covered by construction.",
         "Trusted: i128 arithmetic and the dyadic decomposition of doubles (unit-tested). Error kinds are not constrained by the statement and are not checked.",
         "4/C08"),
}

ALL = ["C%02d" % i for i in range(1, 20)]
NOT_BUILT_REASON = "check not built yet in this revision of /verif (planned in DESIGN.md section 4; property-based testing applies)"

def main():
    checks = []
    for pid in ALL:
        if pid not in CHECKS:
            continue
        tech, text, note, ref = CHECKS[pid]
        checks.append({
            "property_id": pid,
            "quick_cmd": f"./run {pid} quick",
            "thorough_cmd": f"./run {pid} thorough",
            "evidence_file": f"/verif/evidence/{pid}.json",
            "replay_cmd_template": "./run replay {path}",
            "engine": "sqldt-verif",
            "level_claimed": {"category": "exploration", "text": text, "design_ref": f"DESIGN.md section {ref}"},
            "level_note": note,
            "technique": tech,
        })
    man = {
        "version": 1,
        "setup_cmd": "./run build",
        "hooks": {
            "guard": "verif-hooks",
            "enable": "cargo feature `verif-hooks` of sqldatetime, switched on by the harness's path dependency (harness/Cargo.toml: features = [\"serde\", \"oracle\", \"verif-hooks\"])",
            "baseline_off_cmd": "cd /repo && cargo test --workspace --no-fail-fast --offline",
            "source_commits": HOOK_COMMITS,
            "add_only": True,
        },
        "engines": [
            {"name": "sqldt-verif", "path": "harness/", "serves_properties": [c["property_id"] for c in checks],
             "kind_free_text": "one Rust binary: exhaustive parallel sweeps (E1), proptest TestRunner with shrinking (E2), independent oracles (walked calendar, reference tokenizer/renderer, i128 / dyadic-rational arithmetic); built in two profiles (release, and 'checked' = overflow checks + debug assertions)"},
        ],
        "checks": checks,
        "not_applicable": [{"property_id": p, "reason": NOT_BUILT_REASON} for p in ALL if p not in CHECKS],
        "notes": "Exit codes of every command: 0 held, 1 violation (VIOLATION line + replay file), 2 infrastructure problem (never a violation). VERIF_SEED selects the proptest / pool seed (default 0). Known findings: known_findings.json.",
    }
    with open(os.path.join(ROOT, "MANIFEST.json"), "w") as f:
        json.dump(man, f, indent=1)
        f.write("\n")

import subprocess
def hook_commits():
    out = subprocess.run(["git", "-C", "/repo", "log", "--format=%H %s"], capture_output=True, text=True).stdout
    return [l.split()[0] for l in out.splitlines() if "verif hooks" in l]
HOOK_COMMITS = hook_commits()
main()
