#!/usr/bin/env python3
"""Regenerates /verif/MANIFEST.json from the table below (keeps the file valid and in sync)."""
import json, os, sys
ROOT = os.path.dirname(os.path.dirname(os.path.abspath(__file__)))

# id -> (technique, level text, level note, design ref)
CHECKS = {
 "C01": ("exhaustive enumeration vs. independently walked calendar (model-based differential)",
         "Complete enumeration of the stated finite domain (all 3,652,059 day numbers, their out-of-range neighbours, the whole (y,m,d) grid) against a calendar built by day-by-day stepping; this decides the property for every input it quantifies over, short of a bug shared by the 60-line reference walk.",
         "Trusted: the reference walk (month lengths + leap rule + Thursday anchor as written in the statement), the Rust toolchain. Both tiers are exhaustive.",
         "4/C01"),
 "C07": ("exhaustive enumeration + boundary-pool pairs vs. i128 div/rem model (model-based differential)",
         "Every date x critical times of day, every second of the day, every microsecond at three seconds, the full (h,m,s,us) validity grid and neighbour/random ordering pairs are compared with integer arithmetic n*86400e6+t; complete for the date and second axes, sampled (boundary pool + seeded) for arbitrary instants.",
         "Trusted: walked calendar, i128 arithmetic, std DefaultHasher for hash consistency. Arbitrary (date, microsecond) pairs away from the critical times are sampled, not enumerated.",
         "4/C07"),
 "C08": ("pool cross-product sweeps + proptest with shrinking vs. exact i128 / dyadic-rational arithmetic",
         "Each of the 37 linear operations is crossed with boundary+seeded operand pools and proptest-generated 64-bit operands and judged by the biconditional 'Ok(exact) <=> exact result in range'; add_days/sub_days are judged against the exact set of admissible microsecond offsets computed without floating point. Sampled over 64-bit operands; boundary regions are covered by construction.",
         "Trusted: i128 arithmetic and the dyadic decomposition of doubles (unit-tested). Error kinds are not constrained by the statement and are not checked.",
         "4/C08"),
 "C04": ("exhaustive single-token sweeps + proptest composite pictures vs. independent reference renderer (differential)",
         "Every date x every date token, every second x every time token, every microsecond x every fraction token, the (type x token) applicability matrix over boundary pools, and proptest-generated composite pictures of up to 40 tokens are rendered by an independent reference renderer and compared byte for byte through both formatting entry points. Complete for single tokens over the date / second / microsecond axes; sampled for composite pictures.",
         "Trusted: the reference tokenizer/renderer written from the C04/C19 statements and the walked calendar. Case left open by the statement (lU name tokens, mixed-case meridian) is compared ignoring case.",
         "4/C04"),
 "C09": ("exhaustive enumeration vs. floor-division month model on the walked calendar",
         "All 3,652,059 dates x ~100 month offsets each (small offsets, the offsets reaching the first/last supported month and one beyond, the interval limits, seeded) through Date, and through Timestamp/OracleDate at critical times; last_day_of_month for all dates x times. The expected instant is computed by floor division and a calendar lookup; Ok iff that day exists in years 1..9999.",
         "Trusted: walked calendar, integer model. Quick tier visits every third date (plus all days >= 28) for the Timestamp/OracleDate copies; thorough visits all.",
         "4/C09"),
 "C10": ("exhaustive enumeration vs. per-unit boundary predicates (model-based)",
         "All dates x 12 units on Date, all dates x 15 critical times x 12 units on Timestamp and OracleDate, and every second of sampled days: the result must be the latest unit boundary not after the input as given by independent per-unit predicates over the walked calendar; Err iff none in range; idempotence re-checked through the library.",
         "Trusted: the 12 one-line boundary predicates and the walked calendar. Arbitrary microseconds inside a day matter only for hour/minute units, which are covered per second on sampled days.",
         "4/C10"),
 "C11": ("exhaustive enumeration vs. boundary predicates + documented midpoint rule; metamorphic mirror and monotonicity checks",
         "Same domain as C10 for the 12 rounding units on the three types: the result must be the earlier/later neighbouring boundary selected by the documented midpoint, unchanged on a boundary, monotone between consecutive sweep points, Err exactly when the chosen boundary is out of range; shortened weeks accept either neighbour but are pinned at the top of the range by the mirror relation with year 9998. Known finding K1 is matched by signature.",
         "Trusted: boundary predicates, the midpoint table written from the statement and lib.rs docs. K1 (century years) is reported as KNOWN-FINDING, everything else is a violation.",
         "4/C11"),
 "C12": ("exhaustive seconds x boundary intervals + proptest pairs vs. i128 modular arithmetic",
         "Every second of the day x boundary microseconds x boundary intervals x add/sub, proptest-generated (time, interval) pairs with shrinking, sub_time on pool pairs, interval->time conversion and mixed comparisons in both orders, against (t +- i) mod 86400e6 in i128.",
         "Trusted: i128 arithmetic. Arbitrary (time, interval) pairs are sampled.",
         "4/C12"),
 "C13": ("enumeration (all year-month values in thorough) + pools + validity grids vs. sign/div/rem model",
         "Thorough enumerates all 4,272,000,001 year-month intervals; quick strides by 997 plus windows at zero and both limits. Day-time intervals: every second within +-2 days, powers of ten, unit multiples +-1us, limits and up to 8e6 seeded values; constructor grids with u32 extremes; all against sign + div/rem decomposition, exact negation and numeric order.",
         "Trusted: i128 arithmetic. Day-time intervals are sampled outside the +-2 day window.",
         "4/C13"),
 "C14": ("pool x classed-scalar sweeps + proptest vs. exact dyadic-rational arithmetic (no floating point in the oracle)",
         "Interval/Time x mul_f64/div_f64 over boundary pools x classed doubles (integers, dyadic, decimal, tiny, huge, zeros, infinities, NaN, edge-seeking limit/x) and proptest-generated pairs: the result must lie in the exactly computed admissible set (relative 2^-52 then truncation toward zero; single value for integer multipliers below 2^53), errors must have the kind the statement names, and sign symmetry must hold on whole Results.",
         "Trusted: the dyadic decomposition (unit-tested); the admissible set is a superset of the statement's tolerance by at most a relative 2^-60, so ties cannot alarm.",
         "4/C14"),
 "C19": ("exhaustive short strings + proptest token sequences vs. reference longest-match tokenizer, observed through a probe rendering; both build profiles",
         "Every string up to length 4 (quick) / 5 (thorough) over a 39-symbol alphabet, blank runs of every length up to 700, the 36-token limit, near-miss spellings and proptest token sequences of up to 40 tokens are compiled; acceptance must equal the reference tokenizer's and the probe rendering must equal the reference rendering of the reference token list (token identity, name case, blank-run length). Run under release and under overflow-checked builds.",
         "Trusted: the reference tokenizer written from the token list in the statement. Language membership beyond length 5 is sampled by grammar-based generation.",
         "4/C19"),
}

ALL = ["C%02d" % i for i in range(1, 20)]
NOT_BUILT_REASON = "check not built yet in this revision of /verif (planned in DESIGN.md section 4; property-based testing applies)"

def main():
    checks = []
    for pid in ALL:
        if pid not in CHECKS:
            continue
        tech, text, note, ref = CHECKS[pid]
        checks.append({
            "property_id": pid,
            "quick_cmd": f"./run {pid} quick",
            "thorough_cmd": f"./run {pid} thorough",
            "evidence_file": f"/verif/evidence/{pid}.json",
            "replay_cmd_template": "./run replay {path}",
            "engine": "sqldt-verif",
            "level_claimed": {"category": "exploration", "text": text, "design_ref": f"DESIGN.md section {ref}"},
            "level_note": note,
            "technique": tech,
        })
    man = {
        "version": 1,
        "setup_cmd": "./run build",
        "hooks": {
            "guard": "verif-hooks",
            "enable": "cargo feature `verif-hooks` of sqldatetime, switched on by the harness's path dependency (harness/Cargo.toml: features = [\"serde\", \"oracle\", \"verif-hooks\"])",
            "baseline_off_cmd": "cd /repo && cargo test --workspace --no-fail-fast --offline",
            "source_commits": HOOK_COMMITS,
            "add_only": True,
        },
        "engines": [
            {"name": "sqldt-verif", "path": "harness/", "serves_properties": [c["property_id"] for c in checks],
             "kind_free_text": "one Rust binary: exhaustive parallel sweeps (E1), proptest TestRunner with shrinking (E2), independent oracles (walked calendar, reference tokenizer/renderer, i128 / dyadic-rational arithmetic); built in two profiles (release, and 'checked' = overflow checks + debug assertions)"},
        ],
        "checks": checks,
        "not_applicable": [{"property_id": p, "reason": NOT_BUILT_REASON} for p in ALL if p not in CHECKS],
        "notes": "Exit codes of every command: 0 held, 1 violation (VIOLATION line + replay file), 2 infrastructure problem (never a violation). VERIF_SEED selects the proptest / pool seed (default 0). Known findings: known_findings.json.",
    }
    with open(os.path.join(ROOT, "MANIFEST.json"), "w") as f:
        json.dump(man, f, indent=1)
        f.write("\n")

import subprocess
def hook_commits():
    out = subprocess.run(["git", "-C", "/repo", "log", "--format=%H %s"], capture_output=True, text=True).stdout
    return [l.split()[0] for l in out.splitlines() if "verif hooks" in l]
HOOK_COMMITS = hook_commits()
main()
