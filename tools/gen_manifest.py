#!/usr/bin/env python3
"""Regenerates /verif/MANIFEST.json from the table below (keeps the file valid and in sync)."""
import json, os, sys
ROOT = os.path.dirname(os.path.dirname(os.path.abspath(__file__)))

# id -> (technique, level text, level note, design ref)
CHECKS = {
 "C01": ("exhaustive enumeration vs. independently walked calendar (model-based differential)",
         "Complete enumeration of the stated finite domain (all 3,652,059 day numbers, their out-of-range neighbours, the whole (y,m,d) grid) against a calendar built by day-by-day stepping; this decides the property for every input it quantifies over, short of a bug shared by the 60-line reference walk. The same triples are also written as text and read through the parse entry points of Date, Timestamp and OracleDate (separate validators), with the same acceptance and error-kind rule (ten pictures: two with a two-letter year token given four digits, where only an accepted value is judged, three with a minus sign on the day or month, which name no date). Ordering includes the provided Ord methods (max, min, clamp) and sorting.",
         "Trusted: the reference walk (month lengths + leap rule + Thursday anchor as written in the statement), the Rust toolchain. Both tiers are exhaustive.",
         "4/C01"),
 "C07": ("exhaustive enumeration + boundary-pool pairs vs. i128 div/rem model (model-based differential)",
         "Every date x critical times of day, every second of the day, every microsecond at three seconds, the full (h,m,s,us) validity grid and neighbour/random ordering pairs are compared with integer arithmetic n*86400e6+t; complete for the date and second axes, sampled (boundary pool + seeded) for arbitrary instants. Every swept instant is also compared (all operators, both argument orders) with the Date of the previous, same and next day; ordering pairs include the provided Ord methods (max, min, clamp) and sorting.",
         "Trusted: walked calendar, i128 arithmetic, std DefaultHasher for hash consistency. Arbitrary (date, microsecond) pairs away from the critical times are sampled, not enumerated.",
         "4/C07"),
 "C08": ("pool cross-product sweeps + proptest with shrinking vs. exact i128 / dyadic-rational arithmetic",
         "Each of the 37 linear operations is crossed with boundary+seeded operand pools and proptest-generated 64-bit operands and judged by the biconditional 'Ok(exact) <=> exact result in range'; add_days/sub_days are judged against the exact set of admissible microsecond offsets computed without floating point; the difference of two Oracle-style dates (days) is checked over all pool pairs, also at equal times of day. Sampled over 64-bit operands; boundary regions are covered by construction.",
         "Trusted: i128 arithmetic and the dyadic decomposition of doubles (unit-tested). Error kinds are not constrained by the statement and are not checked.",
         "4/C08"),
 "C04": ("exhaustive single-token sweeps + proptest composite pictures vs. independent reference renderer (differential)",
         "Every date x every date token, every second x every time token, every microsecond x every fraction token, the (type x token) applicability matrix over boundary pools, and proptest-generated composite pictures of up to 40 tokens are rendered by an independent reference renderer and compared byte for byte through both formatting entry points. Complete for single tokens over the date / second / microsecond axes; sampled for composite pictures. Histories on one reused compiled Formatter (format / parse calls of mixed types, some failing) and concurrent histories (16 threads formatting their own values with shared picture texts) are judged against the same reference.",
         "Trusted: the reference tokenizer/renderer written from the C04/C19 statements and the walked calendar. Case left open by the statement (lU name tokens, mixed-case meridian) is compared ignoring case.",
         "4/C04"),
 "C09": ("exhaustive enumeration vs. floor-division month model on the walked calendar",
         "All 3,652,059 dates x ~100 month offsets each (small offsets, the offsets reaching the first/last supported month and one beyond, the interval limits, seeded) through Date, and through Timestamp/OracleDate at critical times; last_day_of_month for all dates x times. The expected instant is computed by floor division and a calendar lookup; Ok iff that day exists in years 1..9999. Call-order histories (ascending / descending / scrambled walks with type, operation and offset held fixed) are included.",
         "Trusted: walked calendar, integer model. Quick tier visits every third date (plus all days >= 28) for the Timestamp/OracleDate copies; thorough visits all.",
         "4/C09"),
 "C10": ("exhaustive enumeration vs. per-unit boundary predicates (model-based)",
         "All dates x 12 units on Date, all dates x 15 critical times x 12 units on Timestamp and OracleDate, and every second of sampled days: the result must be the latest unit boundary not after the input as given by independent per-unit predicates over the walked calendar; Err iff none in range; idempotence re-checked through the library. Call-order histories (all dates again in descending and scrambled order, units interleaved) are included.",
         "Trusted: the 12 one-line boundary predicates and the walked calendar. Arbitrary microseconds inside a day matter only for hour/minute units, which are covered per second on sampled days.",
         "4/C10"),
 "C11": ("exhaustive enumeration vs. boundary predicates + documented midpoint rule; metamorphic mirror and monotonicity checks",
         "Same domain as C10 for the 12 rounding units on the three types: the result must be the earlier/later neighbouring boundary selected by the documented midpoint, unchanged on a boundary, monotone between consecutive sweep points, Err exactly when the chosen boundary is out of range; shortened weeks accept either neighbour but are pinned at the top of the range by the mirror relation with year 9998. Known finding K1 is matched by signature. Call-order histories (all dates again in descending and scrambled order, units interleaved) are included.",
         "Trusted: boundary predicates, the midpoint table written from the statement and lib.rs docs. K1 (century years) is reported as KNOWN-FINDING, everything else is a violation.",
         "4/C11"),
 "C12": ("exhaustive seconds x boundary intervals + proptest pairs vs. i128 modular arithmetic",
         "Every second of the day x boundary microseconds x boundary intervals x add/sub, proptest-generated (time, interval) pairs with shrinking, sub_time on pool pairs, interval->time conversion and mixed comparisons in both orders, against (t +- i) mod 86400e6 in i128. Intervals derived from the time itself (its value / complement to midnight plus whole days, both signs; the distances to the next / previous second, minute, hour boundary) go through add, sub and every comparison.",
         "Trusted: i128 arithmetic. Arbitrary (time, interval) pairs are sampled.",
         "4/C12"),
 "C13": ("enumeration (all year-month values in thorough) + pools + validity grids vs. sign/div/rem model",
         "Thorough enumerates all 4,272,000,001 year-month intervals; quick strides by 997 plus windows at zero and both limits. Day-time intervals: every second within +-2 days, powers of ten, unit multiples +-1us, limits and up to 8e6 seeded values; constructor grids with u32 extremes; all against sign + div/rem decomposition, exact negation and numeric order (every operator, cmp / partial_cmp and the provided methods max / min / clamp and sorting over all pairs of a pool).",
         "Trusted: i128 arithmetic. Day-time intervals are sampled outside the +-2 day window.",
         "4/C13"),
 "C14": ("pool x classed-scalar sweeps + proptest vs. exact dyadic-rational arithmetic (no floating point in the oracle)",
         "Interval/Time x mul_f64/div_f64 over boundary pools x classed doubles (integers, dyadic, decimal, tiny, huge, zeros, infinities, NaN, edge-seeking limit/x, operand-derived x, x/2, 2x, 1/x) and proptest-generated pairs: the result must lie in the exactly computed admissible set (relative 2^-52 then truncation toward zero; single value for integer multipliers below 2^53), errors must have the kind the statement names, and sign symmetry must hold on whole Results. The oracle locates results exactly against the overflow threshold of the double (2^1024 - 2^970) and accepts both error kinds only within the stated tolerance of it.",
         "Trusted: the dyadic decomposition (unit-tested); the admissible set is a superset of the statement's tolerance by at most a relative 2^-60, so ties cannot alarm.",
         "4/C14"),
 "C19": ("exhaustive short strings + proptest token sequences vs. reference longest-match tokenizer, observed through a probe rendering; both build profiles",
         "Every string up to length 4 (quick) / 5 (thorough) over a 39-symbol alphabet, blank runs of every length up to 700 and at 2^k boundaries up to 2^25 (2^27 in thorough), the 36-token limit, every single-character substitution / insertion / deletion (all ASCII values) in every token spelling, near-miss spellings and proptest token sequences of up to 40 tokens are compiled; acceptance must equal the reference tokenizer's and the probe rendering must equal the reference rendering of the reference token list (token identity, name case, blank-run length). Run under release and under overflow-checked builds. Every letter-case pattern of every name / meridian token is formatted for probes covering every month name, weekday name and both meridians.",
         "Trusted: the reference tokenizer written from the token list in the statement. Language membership beyond length 5 is sampled by grammar-based generation.",
         "4/C19"),
 "C02": ("operation-table cross-product sweeps + proptest operands vs. range predicates and exact models (validity oracle)",
         "Every row of a 130-row table of safe public operations is crossed with boundary+seeded operand pools and extreme scalars, and fed proptest-generated operands; every returned value must satisfy its type's range predicate, rows with an exact model must return Ok(exact) iff in range (so clamping or an in-range wrap is caught), month arithmetic must match the month model or fail, and speller-built parse inputs at / past the edges must yield Err or an in-range value. Integers of every width handed to each type's Deserialize (serde de::value deserializers) must give an error or exactly the in-range value they denote, never a wrapped image. Runs under both build profiles (release and overflow-checked) in every tier; scaling by limit-tuned factors, public constants, leap-second clock reads, clocks outside the supported range and interval limit texts in every field order are included.",
         "Trusted: range limits derived from the walked calendar and the statement; the operation table is hand-written from the public API (a new public function is not picked up automatically). Sampled over operand space; boundary regions by construction.",
         "4/C02"),
 "C03": ("exhaustive short strings + proptest grammar/mutation generation + operation table with extreme scalars, oracle = catch_unwind; both build profiles; libFuzzer target in thorough",
         "All strings up to length 3 (quick) / 4 (thorough) as pictures and as inputs, every string up to length 2 / 3 before and after 28..38 one-character tokens, every token spelling with every 0..2-character affix x signed / short inputs, grammar pictures with long blank runs x mutated formatted inputs, and every operation-table row with extreme scalars are executed under release and under overflow-checked/debug-assertion builds; any panic in a safe call is a violation. Thorough adds a coverage-guided libFuzzer campaign (overflow checks on) over (type, picture, input) bytes. Long texts / pictures with a multi-byte character across every byte offset and a re-entrant sink are included.",
         "Trusted: std::panic::catch_unwind observing every library call. Absence of panics is established only for what was generated; long structured inputs are sampled.",
         "4/C03"),
 "C05": ("exhaustive (year, day-of-year) / date / second sweeps + constructive speller with proptest shrinking; oracle = value known by construction, single-component perturbations must be rejected",
         "Every (year, day-of-year 0..367), every date through six pictures, every second in 24h and 12h+meridian notation in both orders, 7-digit fractions and each type's carry chain are parsed and compared with the value they denote; a speller constructs lenient spellings (unpadded, '+', blanks, letter case, month names for MM, 1..9 fraction digits with carry, omitted trailing time fields) of generated values of all six types, and 24 kinds of single out-of-domain perturbations that must produce an error. Negative texts include Unicode look-alikes and single-bit flips inside names / meridians, duplicated codes whose text ends early, and the meridian-before-hour omission cases.",
         "Trusted: the speller's sound-domain restrictions (listed in DESIGN.md 4/C05) and the walked calendar. Lenient spellings of arbitrary pictures are sampled.",
         "4/C05"),
 "C06": ("round-trip (metamorphic) over generated lossless pictures; exhaustive dates / seconds x generated pictures; formatted text cross-checked with the reference renderer",
         "parse(format(v,p),p) == v and byte-identical re-formatting for all dates and all seconds of the day under generated lossless pictures (field permutations, separators, name styles, extra consistent fields), and for proptest-generated values of all six types; the intermediate text is also compared with the independent renderer so a compensating pair of errors cannot hide. Boundary and binary-boundary pool values of every type (incl. times of day at 2^k counted from midnight and back from the next midnight) meet fixed rich pictures carrying every consistent redundant field; every round trip runs under an injected current date; concurrent histories from 16 threads.",
         "Trusted: the lossless-picture grammar (which pictures count as unambiguous: DESIGN.md 4/C06). Picture space is sampled.",
         "4/C06"),
 "C15": ("round trip through serde_json and bincode + payload perturbation + operation histories (single-thread and 16-thread stress); oracle = same value / range predicate / denoted integer",
         "All dates, all seconds and pools of the other types round-trip through JSON and bincode with the exact expected encodings (reference rendering of the fixed layouts; little-endian raw counts; the binary round trip is repeated with variable-length and with big-endian integers); raw integers at every limit +-3, at the integer extremes and 1e5..1e6 seeded integers, and mutated / malformed JSON strings, must decode to Err or an in-range value (whole seconds for the Oracle-style date). Histories of 2..10 successful and failing operations on one thread, concurrent histories from 16 threads, integers of every width through serde's value deserializers (error or exactly the denoted value) and long strings with a multi-byte character across every byte offset complete the decode side.",
         "Trusted: serde_json and bincode 1.3 as data formats; the reference renderer for the JSON layouts.",
         "4/C15"),
 "C16": ("exhaustive conversion sweep + operation-table invariant + exact dyadic model for fractional days",
         "From<Timestamp>/new for all dates x 4 seconds x 5 sub-second parts equal the i128 floor; every operation that takes or returns an Oracle-style date keeps the whole-second / range invariant on pool cross products; interval arithmetic equals the floored timestamp result (also for the month distances to the first / last supported month on every date); add_days variants land on a whole second within half a second of an exactly computed admissible instant; sub_date equals seconds/86400 correctly rounded. Every visited instant is also injected as the current local instant for OracleDate::now() and OracleDate::try_from(Time).",
         "Trusted: i128 arithmetic, dyadic model. add_days may fail when the unrounded instant is outside the timestamp range (documented leniency).",
         "4/C16"),
 "C17": ("differential / metamorphic agreement of three implementations, exhaustive over dates",
         "For every date (and critical whole-second times) each of the 24 trunc/round units, last_day_of_month, month and interval offsets and all subtraction variants are applied through Date, Timestamp and OracleDate and must denote the same instant or all fail; mixed-type comparisons in both argument orders must equal the comparison of the converted counts. No reference model is involved, so this is independent of the C10/C11 oracles. Oracle-style differences are compared at equal and different times of day for every date.",
         "Trusted: only the conversions between the three types (themselves checked in C07/C16).",
         "4/C17"),
 "C18": ("exhaustive sweep of the injected clock over every possible current date x time-of-day classes vs. default model, omission grid over time-part pictures (needs the verif-hooks clock)",
         "The clock hook is set to each of the 3,652,059 possible current local dates (x 1 or 3 times of day) and partial pictures, short years, now() and time-of-day conversions are compared with the model defaults validated by the walked calendar; partial pictures with a field that is present but outside its domain must denote no date under any clock; complete pictures must give identical results under nine different clocks. An omission grid (12 time-part pictures in several field orders, text ending after every token) and rotating injected times of day (midnight, +1 us, +0.5 s, mid-day, last microsecond) cover the 12-hour / meridian defaults and the first second of the day before 1970.",
         "Trusted: the hook replaces exactly the value of Local::now().naive_local() at the six read sites (add-only, feature-gated). Time-zone handling inside chrono is outside the property.",
         "4/C18"),
}

ALL = ["C%02d" % i for i in range(1, 20)]
NOT_BUILT_REASON = "check not built yet in this revision of /verif (planned in DESIGN.md section 4; property-based testing applies)"

def main():
    checks = []
    for pid in ALL:
        if pid not in CHECKS:
            continue
        tech, text, note, ref = CHECKS[pid]
        checks.append({
            "property_id": pid,
            "quick_cmd": f"./run {pid} quick",
            "thorough_cmd": f"./run {pid} thorough",
            "evidence_file": f"/verif/evidence/{pid}.json",
            "replay_cmd_template": "./run replay {path}",
            "engine": "sqldt-verif",
            "level_claimed": {"category": "exploration", "text": text, "design_ref": f"DESIGN.md section {ref}"},
            "level_note": note,
            "technique": tech,
        })
    man = {
        "version": 1,
        "setup_cmd": "./run build",
        "hooks": {
            "guard": "verif-hooks",
            "enable": "cargo feature `verif-hooks` of sqldatetime, switched on by the harness's path dependency (harness/Cargo.toml: features = [\"serde\", \"oracle\", \"verif-hooks\"])",
            "baseline_off_cmd": "cd /repo && cargo test --workspace --no-fail-fast --offline",
            "source_commits": HOOK_COMMITS,
            "add_only": True,
        },
        "engines": [
            {"name": "sqldt-verif", "path": "harness/", "serves_properties": [c["property_id"] for c in checks],
             "kind_free_text": "one Rust binary: exhaustive parallel sweeps (E1), proptest TestRunner with shrinking (E2), independent oracles (walked calendar, reference tokenizer/renderer, i128 / dyadic-rational arithmetic); built in two profiles (release, and 'checked' = overflow checks + debug assertions)"},
        ],
        "checks": checks,
        "not_applicable": [{"property_id": p, "reason": NOT_BUILT_REASON} for p in ALL if p not in CHECKS],
        "notes": "Exit codes of every command: 0 held, 1 violation (VIOLATION line + replay file), 2 infrastructure problem (never a violation). VERIF_SEED selects the proptest / pool seed (default 0). Known findings: known_findings.json. The thorough tier runs every property under both build profiles (release, and overflow checks + debug assertions); the quick tier does so for C02, C03 and C19.",
    }
    with open(os.path.join(ROOT, "MANIFEST.json"), "w") as f:
        json.dump(man, f, indent=1)
        f.write("\n")

import subprocess
def hook_commits():
    out = subprocess.run(["git", "-C", "/repo", "log", "--format=%H %s"], capture_output=True, text=True).stdout
    return [l.split()[0] for l in out.splitlines() if "verif hooks" in l]
HOOK_COMMITS = hook_commits()
main()
