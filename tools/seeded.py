#!/usr/bin/env python3
"""Seeded-defect bookkeeping.

  tools/seeded.py import <worktree> <id>     copy patch.diff / tests/seed_demo.rs / meta.json from a sub-agent's
                                              worktree into /verif/seeded/<id>/ and confirm, in a scratch copy of /repo:
                                              patch applies, repo tests pass with it, demo fails with / passes without it
  tools/seeded.py run [<id> ...] [--tier quick|thorough] [--all-props]
                                              run the checks of the seeded property (or all 19) against each seeded
                                              change in a scratch copy (/tmp/sqldt-seed: repo + verif side by side),
                                              record which checks catch it in /verif/seeded/<id>/result.json
Scratch directories are removed at the end.
"""
import json, os, shutil, subprocess, sys, time, argparse, glob

ROOT = os.path.dirname(os.path.dirname(os.path.abspath(__file__)))
SCRATCH = os.environ.get("SEED_SCRATCH", "/tmp/sqldt-seed")
ALL = ["C%02d" % i for i in range(1, 20)]

def sh(cmd, cwd=None, timeout=7200, env=None):
    e = dict(os.environ); e["CARGO_NET_OFFLINE"] = "true"
    if env: e.update(env)
    t = time.time()
    p = subprocess.run(cmd, cwd=cwd, shell=True, capture_output=True, text=True, timeout=timeout, env=e)
    return p.returncode, p.stdout + p.stderr, round(time.time() - t, 1)

def sync_repo():
    os.makedirs(SCRATCH, exist_ok=True)
    subprocess.run(["rsync", "-a", "--delete", "--exclude", "target", "--exclude", ".git", "/repo/", SCRATCH + "/repo/"], check=True)

def sync_verif():
    subprocess.run(["rsync", "-a", "--delete", "--exclude", "target", "--exclude", ".git", "--exclude", "evidence", "--exclude", "seeded", "--exclude", "fuzz/corpus",
                    "--exclude", "fuzz/artifacts", ROOT + "/", SCRATCH + "/verif/"], check=True)
    os.makedirs(SCRATCH + "/verif/evidence", exist_ok=True)
    subprocess.run(["sed", "-i", 's|path = "/repo"|path = "%s/repo"|' % SCRATCH, SCRATCH + "/verif/harness/Cargo.toml"], check=True)
    subprocess.run("rm -f %s/verif/replays/*/viol-* %s/verif/replays/*/fuzz-*crash*" % (SCRATCH, SCRATCH), shell=True)

def cmd_import(wt, sid):
    d = os.path.join(ROOT, "seeded", sid)
    os.makedirs(d, exist_ok=True)
    for f, dst in [("patch.diff", "patch.diff"), ("tests/seed_demo.rs", "seed_demo.rs"), ("meta.json", "meta.json")]:
        src = os.path.join(wt, f)
        if not os.path.exists(src):
            print("missing", src); return 1
        shutil.copy(src, os.path.join(d, dst))
    meta = json.load(open(os.path.join(d, "meta.json")))
    feats = ""
    dc = meta.get("demo_cmd", "")
    if "--features" in dc:
        feats = "--features " + dc.split("--features")[1].split()[0].strip('"')
    if "--all-features" in dc:
        feats = "--all-features"
    conf = {"id": sid, "features": feats}
    sync_repo()
    repo = SCRATCH + "/repo"
    env = {"CARGO_TARGET_DIR": SCRATCH + "/repo-target"}
    os.makedirs(repo + "/tests", exist_ok=True)
    shutil.copy(os.path.join(d, "seed_demo.rs"), repo + "/tests/seed_demo.rs")
    rc, out, _ = sh(f"cargo test --offline --test seed_demo {feats} 2>&1 | grep -E '^test result|^error' | head -3", repo, env=env)
    conf["demo_without_change"] = out.strip()
    rc, out, _ = sh(f"git apply --check {d}/patch.diff 2>&1 || patch -p1 --dry-run < {d}/patch.diff", repo)
    rc, out, _ = sh(f"patch -p1 < {d}/patch.diff", repo)
    conf["patch_applies"] = (rc == 0)
    if rc != 0:
        conf["patch_error"] = out[-400:]
    rc, out, _ = sh("cargo test --offline --lib 2>&1 | grep -E '^test result|^error' | head -2", repo, env=env)
    conf["repo_tests_with_change"] = out.strip()
    rc, out, _ = sh("cargo test --offline --doc 2>&1 | grep -E '^test result|^error' | head -2", repo, env=env)
    conf["repo_doctests_with_change"] = out.strip()
    rc, out, _ = sh("cargo build --offline --all-features 2>&1 | grep -E '^error' | head -2", repo, env=env)
    conf["all_features_build_errors"] = out.strip()
    rc, out, _ = sh(f"cargo test --offline --test seed_demo {feats} 2>&1 | grep -E '^test result|^error' | head -3", repo, env=env)
    conf["demo_with_change"] = out.strip()
    ok = (conf["patch_applies"] and "0 failed" in conf["repo_tests_with_change"] and "52 passed" in conf["repo_tests_with_change"]
          and "0 failed" in conf["demo_without_change"] and "FAILED" in conf["demo_with_change"] and not conf["all_features_build_errors"])
    conf["confirmed"] = ok
    meta["confirmation"] = conf
    json.dump(meta, open(os.path.join(d, "meta.json"), "w"), indent=1)
    print(json.dumps(conf, indent=1))
    shutil.rmtree(SCRATCH, ignore_errors=True)
    return 0 if ok else 1

def cmd_run(ids, tier, all_props, only_props=None):
    if not ids:
        ids = sorted(os.listdir(os.path.join(ROOT, "seeded")))
    summary = {}
    for sid in ids:
        d = os.path.join(ROOT, "seeded", sid)
        if not os.path.exists(os.path.join(d, "patch.diff")):
            continue
        meta = json.load(open(os.path.join(d, "meta.json")))
        prop = meta.get("property", sid[:3])
        props = only_props if only_props else (ALL if all_props else [prop])
        sync_repo(); sync_verif()
        rc, out, _ = sh(f"patch -p1 < {d}/patch.diff", SCRATCH + "/repo")
        if rc != 0:
            print(sid, "patch does not apply:", out[-300:]); continue
        res = {}
        for p in props:
            rc, out, dt = sh(f"./run {p} {tier}", SCRATCH + "/verif")
            viol = [l for l in out.splitlines() if l.startswith("VIOLATION")]
            det = [l.strip() for l in out.splitlines() if l.strip().startswith("detail:")]
            res[p] = {"rc": rc, "violations": len(viol), "secs": dt, "detail": det[0][:400] if det else ""}
            if rc not in (0, 1):
                res[p]["tail"] = out[-500:]
        rp = os.path.join(d, "result.json")
        old = json.load(open(rp)) if os.path.exists(rp) else {}
        old.setdefault(tier, {}).update(res)
        old["caught_by_" + tier] = sorted(k for k, v in old[tier].items() if v["rc"] == 1)
        json.dump(old, open(rp, "w"), indent=1, sort_keys=True)
        summary[sid] = {"property": prop, "caught_by": old["caught_by_" + tier], "own_check": res.get(prop, {}).get("rc")}
        print(sid, json.dumps(summary[sid]), flush=True)
    shutil.rmtree(SCRATCH, ignore_errors=True)
    return 0

def main():
    ap = argparse.ArgumentParser()
    ap.add_argument("cmd"); ap.add_argument("args", nargs="*")
    ap.add_argument("--tier", default="quick"); ap.add_argument("--all-props", action="store_true")
    ap.add_argument("--props", help="comma-separated list of checks to run instead of the seed's own")
    a = ap.parse_args()
    if a.cmd == "import":
        sys.exit(cmd_import(a.args[0], a.args[1]))
    if a.cmd == "run":
        sys.exit(cmd_run(a.args, a.tier, a.all_props, a.props.split(",") if a.props else None))
    print(__doc__); sys.exit(2)

main()
