#!/usr/bin/env python3
"""Validates MANIFEST.json and every evidence file against the task schemas (python3-vt has jsonschema)."""
import json, glob, sys, jsonschema
ok = True
m = json.load(open('/verif/MANIFEST.json')); jsonschema.validate(m, json.load(open('/root/.vp/MANIFEST.schema.json')))
print("manifest ok: %d checks, %d not_applicable" % (len(m['checks']), len(m.get('not_applicable', []))))
s = json.load(open('/root/.vp/EVIDENCE.schema.json'))
for f in sorted(glob.glob('/verif/evidence/*.json')):
    try:
        e = json.load(open(f)); jsonschema.validate(e, s)
        c = e['coverage']
        print("%s ok tier=%s eval=%s distinct=%s viol=%s wall=%s" % (f, e['tier'], c['evaluations'], c['distinct_nontrivial'], e.get('violations'), e['wall_s']))
    except Exception as ex:
        ok = False; print(f, "INVALID", str(ex)[:300])
sys.exit(0 if ok else 1)
